#!/usr/bin/env python3
"""Keep the stored seeded changes and mutants applicable with plain `git apply` after /repo has moved on (fix: commits):
every patch.diff / emitted.diff that no longer applies is re-applied with a 3-way merge in a scratch worktree and
rewritten as the diff against the current HEAD.  Nothing is committed to /repo."""
import glob, os, subprocess, sys, tempfile, shutil
def run(*a, cwd=None, inp=None):
    return subprocess.run(a, cwd=cwd, input=inp, capture_output=True, text=True)
changed = 0
for d in sorted(glob.glob("/verif/seeded/*/") + glob.glob("/verif/selftest/mutants/*/")):
    diffs = [f for f in ("patch.diff", "emitted.diff") if os.path.exists(d + f)]
    if not diffs:
        continue
    wt = tempfile.mkdtemp(prefix="govc-rb-"); os.rmdir(wt)
    run("git", "-C", "/repo", "worktree", "add", "-q", "--detach", wt)
    try:
        base = "HEAD"
        for f in diffs:
            if run("git", "-C", wt, "apply", "--index", d + f).returncode == 0:
                new = None
            else:
                r = run("git", "-C", wt, "apply", "--3way", d + f)
                if r.returncode != 0:
                    print(f"{d}{f}: DOES NOT APPLY even with --3way: {r.stderr.strip()[:200]}")
                    break
                new = True
            tree = run("git", "-C", wt, "write-tree").stdout.strip()
            if new:
                diff = run("git", "-C", wt, "diff-index", "--cached", "-p", "--full-index", base if base != "HEAD" else "HEAD").stdout
                if base != "HEAD":
                    diff = run("git", "-C", wt, "diff", "--full-index", base, tree).stdout
                open(d + f, "w").write(diff)
                print(f"{d}{f}: rewritten against the current HEAD")
                changed += 1
            base = tree
    finally:
        run("git", "-C", "/repo", "worktree", "remove", "--force", wt)
        shutil.rmtree(wt, ignore_errors=True)
print("rewritten:", changed)
