#!/bin/bash
# confirm_seed.sh <seed dir> <pkg dir for demo> : build + suite + demo fails with patch / passes without
export GOFLAGS=-mod=mod GOPROXY=off GOSUMDB=off GOTOOLCHAIN=local
S=$1; PKG=$2
WT=$(mktemp -d -u /tmp/seedwt-XXXX)
git -C /repo worktree add -q --detach $WT
cd $WT
cp $S/demo_test.go $PKG/zz_demo_test.go
go test -vet=off -count=1 -timeout 120s -run 'Demo|TestC|Seed|Test.*' ./$PKG > /tmp/seed_clean.log 2>&1; CLEAN=$?
git apply $S/patch.diff || { echo "PATCH FAILS"; }
[ -f $S/emitted.diff ] && git apply $S/emitted.diff
go build ./... > /tmp/seed_build.log 2>&1; BUILD=$?
rm $PKG/zz_demo_test.go
go test -vet=off -count=1 ./... > /tmp/seed_suite.log 2>&1; SUITE=$?
cp $S/demo_test.go $PKG/zz_demo_test.go
timeout 300 go test -vet=off -count=1 -timeout 120s ./$PKG > /tmp/seed_mut.log 2>&1; MUT=$?
echo "$(basename $S): build=$BUILD suite=$SUITE demo_clean_exit=$CLEAN demo_mutant_exit=$MUT"
cd /; git -C /repo worktree remove --force $WT
