#!/usr/bin/env python3
"""Must-fail selftest: applies each mutant under /verif/selftest/mutants/<name>/ (patch.diff + meta.json) to a scratch
worktree of /repo (outside /repo and /verif, removed afterwards) and runs the named checks with --repo <scratch>.
meta.json: {"property": "C15", "expect": "violation" | "silent", "obligation": "<substring expected in a VIOLATION line>"}"""
import json, os, subprocess, sys, tempfile, shutil, glob
ENV = dict(os.environ, GOFLAGS="-mod=mod", GOPROXY="off", GOSUMDB="off", GOTOOLCHAIN="local")
root = "/verif/selftest/mutants"
only = [a for a in sys.argv[1:] if not a.startswith("--")]
fails = 0
for d in sorted(glob.glob(root + "/*/") + glob.glob("/verif/seeded/*/")):
    name = os.path.basename(d.rstrip("/"))
    if only and not any(o in name for o in only):
        continue
    meta = json.load(open(d + "meta.json"))
    props = meta["property"] if isinstance(meta["property"], list) else [meta["property"]]
    wt = tempfile.mkdtemp(prefix="govc-mut-")
    os.rmdir(wt)
    subprocess.run(["git", "-C", "/repo", "worktree", "add", "-q", "--detach", wt], check=True)
    try:
        r = subprocess.run(["git", "-C", wt, "apply", d + "patch.diff"], capture_output=True, text=True)
        if r.returncode != 0:
            print(f"{name}: PATCH DOES NOT APPLY: {r.stderr.strip()}")
            fails += 1
            continue
        if os.path.exists(d + "emitted.diff") and "--template-only" not in sys.argv:
            r = subprocess.run(["git", "-C", wt, "apply", d + "emitted.diff"], capture_output=True, text=True)
            if r.returncode != 0:
                print(f"{name}: EMITTED DIFF DOES NOT APPLY: {r.stderr.strip()}")
                fails += 1
                continue
        for prop in props:
            r = subprocess.run(["/verif/bin/govc", "check", prop, "--repo", wt, "--noevidence"], capture_output=True, text=True, env=ENV)
            vio = [l for l in r.stdout.splitlines() if l.startswith("VIOLATION")]
            want = meta.get("expect", "violation")
            ok = (want == "violation" and r.returncode == 1 and any(meta.get("obligation", "") in l for l in vio)) or (want == "silent" and r.returncode == 0 and not vio)
            print(f"{name} [{prop}]: {'ok' if ok else 'UNEXPECTED'} (exit {r.returncode}, {len(vio)} violation lines; expected {want} {meta.get('obligation','')})")
            if ok and vio:
                print("     e.g. " + vio[0].split("obligation=")[-1][:160])
            if not ok:
                fails += 1
                for l in (vio[:5] or r.stdout.splitlines()[-5:]):
                    print("     " + l)
    finally:
        subprocess.run(["git", "-C", "/repo", "worktree", "remove", "--force", wt])
        shutil.rmtree(wt, ignore_errors=True)
sys.exit(1 if fails else 0)
