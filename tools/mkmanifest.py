#!/usr/bin/env python3
# Regenerates /verif/MANIFEST.json from the table below (kept valid at all times; run after every change of claims).
import json, subprocess
props = [json.loads(l) for l in open('/verif/properties.jsonl')]
ENV = "GOFLAGS=-mod=mod GOPROXY=off GOSUMDB=off GOTOOLCHAIN=local"
hooks = subprocess.run(["git", "-C", "/repo", "log", "--format=%H %s"], capture_output=True, text=True).stdout.splitlines()
hook_commits = [l.split()[0] for l in hooks if l.split(" ", 1)[1].startswith("verif:")]

claims = {
 "C15": dict(
   text="Deductive proof over the real bodies of runtime.Sov, Soz, EncodeVarint, Skip (and of protowire.SizeVarint / EncodeZigZag from the module cache) against contracts kept in runtime/contracts_verif.go: bit-exact 64-bit vector semantics, all inputs, no bound. Sizes equal the wire-format spec function and protowire's own body; EncodeVarint: result, exact minimal bytes, frame, no panic under the stated room precondition; Skip: every index in bounds for every byte string, progress, termination (variant), error => 0, and n == length of the first record for wire types 0/1/2/5 with tags of any length.",
   note="Trusted: govc's Go semantics, SMT solvers, bits.Len64 modelled by definition, slice len <= 2^48. Not proved: Skip's result on group records (wire types 3/4) beyond safety/progress/termination.",
   technique="contract-based deductive verification: weakest-precondition style VCs generated from the typed Go AST, discharged by z3/cvc5", ref="§6 C15"),
 "C17": dict(
   text="Deductive proof of timepb.Add, Compare, DurationIsNegative (overflowPanic inlined) against contracts in support/timepb/contracts_verif.go, in exact integer arithmetic with explicit wrap-around: for every valid Timestamp/Duration Add returns a fresh, normalised value denoting exactly t+d and does not panic; for arbitrary 64-bit seconds it panics exactly when the seconds sum leaves int64 (second contract Add#overflow); Compare is the lexicographic = chronological order on normalised values.",
   note="Trusted: govc, solvers. AddStd is not under contract (time.Time arithmetic is outside the supported subset): Add is proved against the mathematical instant instead, so agreement with AddStd rests on the standard library being exact. Total-order laws follow from the sign(total difference) characterisation (not separately discharged).",
   technique="contract-based deductive verification (LIA + explicit wrap), VCs from the typed Go AST, z3/cvc5", ref="§6 C17"),
}
na_reason = {}
default_na = "engine stage not completed yet (build in progress); see DESIGN.md §11"

checks = []
for p in props:
    pid = p["id"]
    if pid in claims:
        c = claims[pid]
        checks.append({
            "property_id": pid,
            "quick_cmd": f"/verif/bin/govc check {pid} --tier quick",
            "thorough_cmd": f"/verif/bin/govc check {pid} --tier thorough",
            "evidence_file": f"/verif/evidence/{pid}.json",
            "replay_cmd_template": "/verif/bin/govc replay {path}",
            "engine": "govc",
            "level_claimed": {"category": "proof", "text": c["text"], "design_ref": c["ref"]},
            "level_note": c["note"],
            "technique": c["technique"],
        })
m = {
 "version": 1,
 "setup_cmd": f"cd /verif/govc && {ENV} go build -o /verif/bin/govc .",
 "hooks": {"guard": "verif", "enable": "go build tag: -tags verif (adds comment-only contracts_verif.go files)",
           "baseline_off_cmd": f"cd /repo && {ENV} go test -vet=off -count=1 ./...", "add_only": True, "source_commits": hook_commits},
 "engines": [{"name": "govc", "path": "/verif/govc", "serves_properties": sorted(claims), "kind_free_text": "VC generator over the typed Go AST of /repo (go/packages + go/types), contracts in //@ comment files under build tag verif, obligations discharged by z3-new 5.1.0 / z3 4.8.12 / cvc5 1.0.3, counterexamples replayed with go test -overlay"}],
 "checks": checks,
 "not_applicable": [{"property_id": p["id"], "reason": na_reason.get(p["id"], default_na)} for p in props if p["id"] not in claims],
 "notes": "Known findings and fixed defects: /verif/known_findings.json. Design: /verif/DESIGN.md.",
}
json.dump(m, open('/verif/MANIFEST.json', 'w'), indent=1)
print("claimed:", sorted(claims))
