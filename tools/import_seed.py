#!/usr/bin/env python3
"""import_seed.py <agent change dir> <seed id> <property> <pkg dir of demo> <needs text> [round]
copies a sub-agent's change into /verif/seeded/<seed id>, confirms it with confirm_seed.sh and writes meta.json"""
import sys, os, shutil, subprocess, json
src, sid, prop, pkg, needs = sys.argv[1:6]
rnd = sys.argv[6] if len(sys.argv) > 6 else "5"
dst = "/verif/seeded/" + sid
os.makedirs(dst, exist_ok=True)
for f in os.listdir(src):
    if os.path.isfile(os.path.join(src, f)):
        shutil.copy(os.path.join(src, f), dst)
out = subprocess.run(["/verif/tools/confirm_seed.sh", dst, pkg], capture_output=True, text=True).stdout.strip().splitlines()[-1]
print(out)
ok = "build=0 suite=0 demo_clean_exit=0" in out and "demo_mutant_exit=0" not in out
meta = {"property": [prop], "expect": "violation", "obligation": "", "needs": needs,
        "source": "independent sub-agent (round %s) given only the property text and a scratch worktree (contract files hidden)" % rnd,
        "ran": "tools/confirm_seed.sh seeded/%s %s: with patch.diff applied in a scratch worktree: go build ./... ok, full suite passes, demo_test.go fails; on the clean tree demo_test.go passes" % (sid, pkg)}
if ok:
    json.dump(meta, open(dst + "/meta.json", "w"), indent=1)
else:
    print("NOT CONFIRMED", sid)
