#!/usr/bin/env python3
"""mkmutant.py <name> <property[,property]> <violation|silent> <obligation-substring> <file> <old> <new> [<file> <old> <new> ...]
Creates /verif/selftest/mutants/<name>/{patch.diff,meta.json} by literal replacement (first occurrence, or all with old prefixed by 'ALL:')."""
import sys, os, json, subprocess, tempfile, shutil
name, props, expect, obl = sys.argv[1:5]
edits = sys.argv[5:]
wt = tempfile.mkdtemp(prefix="govc-mk-"); os.rmdir(wt)
subprocess.run(["git", "-C", "/repo", "worktree", "add", "-q", "--detach", wt], check=True)
try:
    for i in range(0, len(edits), 3):
        f, old, new = edits[i:i+3]
        p = os.path.join(wt, f); s = open(p).read()
        allp = old.startswith("ALL:")
        if allp: old = old[4:]
        if old not in s: sys.exit(f"pattern not found in {f}: {old!r}")
        s = s.replace(old, new) if allp else s.replace(old, new, 1)
        open(p, "w").write(s)
    r = subprocess.run(["go", "build", "./..."], cwd=wt, capture_output=True, text=True, env=dict(os.environ, GOFLAGS="-mod=mod", GOPROXY="off", GOSUMDB="off", GOTOOLCHAIN="local"))
    if r.returncode != 0: sys.exit("mutant does not compile:\n" + r.stderr)
    t = subprocess.run(["go", "test", "-vet=off", "-count=1", "./..."], cwd=wt, capture_output=True, text=True, env=dict(os.environ, GOFLAGS="-mod=mod", GOPROXY="off", GOSUMDB="off", GOTOOLCHAIN="local"))
    suite = "pass" if t.returncode == 0 else "FAIL"
    diff = subprocess.run(["git", "-C", wt, "diff"], capture_output=True, text=True).stdout
    d = f"/verif/selftest/mutants/{name}"; os.makedirs(d, exist_ok=True)
    open(d + "/patch.diff", "w").write(diff)
    json.dump({"property": props.split(","), "expect": expect, "obligation": obl, "existing_suite": suite}, open(d + "/meta.json", "w"), indent=1)
    print(name, "suite:", suite)
finally:
    subprocess.run(["git", "-C", "/repo", "worktree", "remove", "--force", wt]); shutil.rmtree(wt, ignore_errors=True)
