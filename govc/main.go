// govc: contract-based deductive verification of cosmos/cosmos-proto (see /verif/DESIGN.md).
package main

import (
	"flag"
	"fmt"
	"go/types"
	"os"
	"strconv"
	"strings"
	"time"
)

var repoDir = "/repo"

type checkFn func(rep *Report) error

var checks = map[string]checkFn{}

func main() {
	if len(os.Args) < 2 {
		fmt.Println("usage: govc check <property> [--tier quick|thorough] | replay <file> | list")
		os.Exit(2)
	}
	defer cleanupScratch()
	switch os.Args[1] {
	case "check":
		fs := flag.NewFlagSet("check", flag.ExitOnError)
		tier := fs.String("tier", "", "quick|thorough")
		repo := fs.String("repo", "/repo", "repository root")
		noev := fs.Bool("noevidence", false, "write evidence and replay files to a scratch directory (selftest)")
		id := os.Args[2]
		fs.Parse(os.Args[3:])
		repoDir = *repo
		if *noev {
			evidenceDir = scratch()
		}
		if *tier == "" {
			*tier = os.Getenv("VERIF_TIER")
		}
		if *tier == "" {
			*tier = "quick"
		}
		seed, _ := strconv.ParseInt(os.Getenv("VERIF_SEED"), 10, 64)
		fn, ok := checks[id]
		if !ok {
			fmt.Println("unknown property", id)
			os.Exit(2)
		}
		runTier, runSeed = *tier, seed
		if runSeed == 0 {
			runSeed = 1
		}
		rep := &Report{Property: id, Tier: *tier, Seed: seed, start: time.Now(), Extra: map[string]interface{}{}}
		code := 0
		func() {
			defer func() {
				if r := recover(); r != nil {
					if us, ok := r.(unsupported); ok {
						fmt.Println("BROKEN:", us.msg)
						code = 2
						return
					}
					panic(r)
				}
			}()
			if err := fn(rep); err != nil {
				fmt.Println("BROKEN:", err)
				code = 2
				return
			}
			code = rep.finish()
		}()
		cleanupScratch()
		os.Exit(code)
	case "replay":
		b, err := os.ReadFile(os.Args[2])
		if err != nil {
			fmt.Println(err)
			os.Exit(2)
		}
		os.Exit(replayFile(b))
	case "list":
		for _, k := range sortedKeys(checks) {
			fmt.Println(k)
		}
	}
}

// unitsForProperty proves every contracted function tagged with the property, plus its lemmas.
func unitsForProperty(p *Program, rep *Report, prop string) {
	for _, k := range sortedKeys(p.contracts.Funcs) {
		fs := p.contracts.Funcs[k]
		if !fs.hasProp(prop) {
			continue
		}
		if fs.Extern && !fs.VerifyBody {
			continue
		}
		u := p.verifyFunc(fs)
		rep.Units = append(rep.Units, u)
		for _, b := range fs.Bounded {
			rep.Bounded = append(rep.Bounded, u.Name+": "+b)
		}
	}
	for _, lm := range p.contracts.Lemmas {
		if lm.Prop != "" && !strings.Contains(lm.Prop, prop) {
			continue
		}
		if lm.Prop == "" {
			continue
		}
		rep.Units = append(rep.Units, p.proveLemma(lm))
	}
	for _, k := range sortedKeys(p.contracts.Funcs) {
		fs := p.contracts.Funcs[k]
		if fs.Trusted != "" && !fs.VerifyBody {
			for _, u := range rep.Units {
				if u.Ctx != nil && u.Ctx.usedSpecs[k] {
					rep.Trusted = appendUnique(rep.Trusted, "assumed contract: "+k+" ("+fs.Trusted+")")
				}
			}
		}
	}
}

func appendUnique(l []string, s string) []string {
	for _, x := range l {
		if x == s {
			return l
		}
	}
	return append(l, s)
}

func (fs *FuncSpec) hasProp(p string) bool {
	for _, x := range fs.Props {
		if x == p {
			return true
		}
	}
	return false
}

var lemmaTypes = map[string]types.Type{"uint64": types.Typ[types.Uint64], "int64": types.Typ[types.Int64], "uint32": types.Typ[types.Uint32], "int32": types.Typ[types.Int32], "int": types.Typ[types.Int], "bool": types.Typ[types.Bool], "uint8": types.Typ[types.Uint8], "bytes": types.NewSlice(types.Typ[types.Uint8])}

func (p *Program) proveLemma(lm *Lemma) (u *Unit) {
	pk := p.byPath[lm.Pkg]
	short := lm.Pkg[strings.LastIndex(lm.Pkg, "/")+1:]
	u = &Unit{Name: short + ".lemma." + lm.Name}
	c := newCtx(p, pk, lm.Mode, u.Name)
	u.Ctx = c
	u.File = "lemma"
	defer func() {
		if r := recover(); r != nil {
			if us, ok := r.(unsupported); ok {
				u.Skipped = us.msg
				return
			}
			panic(r)
		}
	}()
	st := newState()
	binds := map[string]Val{}
	for _, v := range lm.Vars {
		parts := strings.SplitN(v, ":", 2)
		t, ok := lemmaTypes[parts[1]]
		if !ok {
			panic(unsupported{"lemma variable type " + parts[1]})
		}
		binds[parts[0]] = c.symbolic(st, parts[0], t)
	}
	env := &SpecEnv{c: c, st: st, entry: st, binds: binds}
	c.addObl(Obl{Name: u.Name, Kind: "lemma", Guard: "true", Goal: c.specBool(lm.Clause, env), Text: lm.Clause.Text})
	return u
}

var globalTrusted = []string{
	"govc itself: Go-semantics model of the symbolic executor, contract evaluator, spec library (mitigated by the must-fail selftest corpus, cover and canary probes)",
	"SMT solvers z3 5.1.0, z3 4.8.12, cvc5 1.0.3",
	"Go toolchain: go/types, compiler, runtime; semantics of append/copy/make/string()",
	"slice lengths and capacities are at most 2^48 (user address space on 64-bit targets)",
}
