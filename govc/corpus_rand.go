package main

// Thorough tier: pseudo-random schemas (seeded by VERIF_SEED) added to the corpus, so that every run of the thorough
// commands with a new seed puts programs under proof that nobody wrote by hand.  Kinds, cardinalities (singular,
// repeated with default / explicit packing, map, oneof member), field numbers across all tag widths, message
// references (including self and mutual references) are drawn independently.

import (
	"fmt"
	"math/rand"

	"google.golang.org/protobuf/proto"
	"google.golang.org/protobuf/types/descriptorpb"
)

var runTier = "quick"
var runSeed int64 = 1

func randomFiles(seed int64) []*descriptorpb.FileDescriptorProto {
	r := rand.New(rand.NewSource(seed*7919 + 17))
	rf := newFile("corpus/rnd/rnd.proto", "corpus.rnd", freshModule+"/corpus/rnd")
	rf.EnumType = append(rf.EnumType, &descriptorpb.EnumDescriptorProto{Name: proto.String("RE"), Value: []*descriptorpb.EnumValueDescriptorProto{
		{Name: proto.String("RE_0"), Number: proto.Int32(0)}, {Name: proto.String("RE_5"), Number: proto.Int32(5)}, {Name: proto.String("RE_M2"), Number: proto.Int32(-2)}}})
	const nMsg = 3
	names := make([]string, nMsg)
	for i := range names {
		names[i] = fmt.Sprintf("R%d", i)
	}
	mapKeys := []string{"int32", "int64", "uint32", "uint64", "sint32", "sint64", "fixed32", "fixed64", "sfixed32", "sfixed64", "bool", "string"}
	kt := map[string]dpType{}
	for _, k := range scalarKinds {
		kt[k.name] = k.t
	}
	pickNum := func(used map[int32]bool) int32 {
		for {
			var n int32
			switch r.Intn(6) {
			case 0, 1, 2:
				n = int32(1 + r.Intn(15))
			case 3:
				n = int32(16 + r.Intn(2032))
			case 4:
				n = int32(2048 + r.Intn(260000))
			default:
				n = tagNumbers[r.Intn(len(tagNumbers))]
			}
			if n >= 19000 && n <= 19999 { // reserved by protobuf
				continue
			}
			if !used[n] {
				used[n] = true
				return n
			}
		}
	}
	// a value type: scalar kind, enum or message
	pickType := func() (dpType, string) {
		switch r.Intn(10) {
		case 0:
			return tEnum, ".corpus.rnd.RE"
		case 1, 2:
			return tMsg, ".corpus.rnd." + names[r.Intn(nMsg)]
		}
		k := scalarKinds[r.Intn(len(scalarKinds))]
		return k.t, ""
	}
	for i := 0; i < nMsg; i++ {
		m := newMsg(names[i], "corpus.rnd."+names[i])
		used := map[int32]bool{}
		nf := 4 + r.Intn(7)
		oneofOpen := int32(-1)
		for j := 0; j < nf; j++ {
			name := fmt.Sprintf("f%d_%d", i, j)
			num := pickNum(used)
			t, tn := pickType()
			c := r.Intn(8)
			if c <= 5 {
				oneofOpen = -1 // members of a oneof are declared consecutively
			}
			switch c {
			case 0, 1, 2: // singular
				m.field(name, num, t, tn)
			case 3, 4: // repeated
				var packed *bool
				if t != tMsg && t != kt["string"] && t != kt["bytes"] {
					switch r.Intn(3) {
					case 0:
						packed = proto.Bool(false)
					case 1:
						packed = proto.Bool(true)
					}
				}
				m.repeated(name, num, t, tn, packed)
			case 5: // map
				if t == tMsg || t == tEnum || r.Intn(2) == 0 {
					m.mapField(name, num, kt[mapKeys[r.Intn(len(mapKeys))]], t, tn)
				} else {
					m.mapField(name, num, kt[mapKeys[r.Intn(len(mapKeys))]], t, "")
				}
			default: // oneof member (a new oneof, or the one that is open)
				if oneofOpen < 0 || r.Intn(3) == 0 {
					oneofOpen = m.oneofDecl(fmt.Sprintf("o%d_%d", i, j))
				}
				m.member(oneofOpen, name, num, t, tn)
			}
		}
		rf.MessageType = append(rf.MessageType, m.m)
	}
	return []*descriptorpb.FileDescriptorProto{rf}
}
