package main

// Thorough tier: pseudo-random schemas (seeded by VERIF_SEED) added to the corpus, so that every run of the thorough
// commands with a new seed puts programs under proof that nobody wrote by hand.  Kinds, cardinalities (singular,
// repeated with default / explicit packing, map, oneof member), field numbers across all tag widths, message
// references (including self and mutual references) are drawn independently.

import (
	"fmt"
	"math/rand"

	"google.golang.org/protobuf/proto"
	"google.golang.org/protobuf/types/descriptorpb"
)

var runTier = "quick"
var runSeed int64 = 1

func randomFiles(seed int64) []*descriptorpb.FileDescriptorProto {
	r := rand.New(rand.NewSource(seed*7919 + 17))
	rf := newFile("corpus/rnd/rnd.proto", "corpus.rnd", freshModule+"/corpus/rnd")
	rf.EnumType = append(rf.EnumType, &descriptorpb.EnumDescriptorProto{Name: proto.String("RE"), Value: []*descriptorpb.EnumValueDescriptorProto{
		{Name: proto.String("RE_0"), Number: proto.Int32(0)}, {Name: proto.String("RE_5"), Number: proto.Int32(5)}, {Name: proto.String("RE_M2"), Number: proto.Int32(-2)}}})
	const nMsg = 3
	names := make([]string, nMsg)
	for i := range names {
		names[i] = fmt.Sprintf("R%d", i)
	}
	// nesting: flat, R2 declared inside R1, or the chain R0 > R1 > R2; a nested declaration is put at a random position
	// among its parent's nested types, so it may come before, between or after the synthetic map entries
	full := make([]string, nMsg)
	parent := make([]int, nMsg)
	for i := range parent {
		parent[i] = -1
	}
	switch r.Intn(3) {
	case 1:
		parent[2] = 1
	case 2:
		parent[1], parent[2] = 0, 1
	}
	for i := range names {
		full[i] = names[i]
		for p := parent[i]; p >= 0; p = parent[p] {
			full[i] = names[p] + "." + full[i]
		}
	}
	// an enum nested in R0, possibly with aliases (several names for one number)
	neVals := []*descriptorpb.EnumValueDescriptorProto{{Name: proto.String("NE_ZERO"), Number: proto.Int32(0)}}
	neSeen, neAlias := map[int32]bool{0: true}, false
	for k := 0; k < 2+r.Intn(4); k++ {
		n := int32(r.Intn(5) - 1)
		if r.Intn(4) == 0 {
			n = int32(r.Intn(400) - 200)
		}
		if neSeen[n] {
			neAlias = true
		}
		neSeen[n] = true
		neVals = append(neVals, &descriptorpb.EnumValueDescriptorProto{Name: proto.String(fmt.Sprintf("NE_V%d", k)), Number: proto.Int32(n)})
	}
	ne := &descriptorpb.EnumDescriptorProto{Name: proto.String("NE"), Value: neVals}
	if neAlias {
		ne.Options = &descriptorpb.EnumOptions{AllowAlias: proto.Bool(true)}
	}
	mapKeys := []string{"int32", "int64", "uint32", "uint64", "sint32", "sint64", "fixed32", "fixed64", "sfixed32", "sfixed64", "bool", "string"}
	kt := map[string]dpType{}
	for _, k := range scalarKinds {
		kt[k.name] = k.t
	}
	pickNum := func(used map[int32]bool) int32 {
		for {
			var n int32
			switch r.Intn(6) {
			case 0, 1, 2:
				n = int32(1 + r.Intn(15))
			case 3:
				n = int32(16 + r.Intn(2032))
			case 4:
				n = int32(2048 + r.Intn(260000))
			default:
				n = tagNumbers[r.Intn(len(tagNumbers))]
			}
			if n >= 19000 && n <= 19999 { // reserved by protobuf
				continue
			}
			if !used[n] {
				used[n] = true
				return n
			}
		}
	}
	// a value type: scalar kind, enum or message
	pickType := func() (dpType, string) {
		switch r.Intn(10) {
		case 0:
			if r.Intn(2) == 0 {
				return tEnum, ".corpus.rnd.R0.NE"
			}
			return tEnum, ".corpus.rnd.RE"
		case 1, 2:
			return tMsg, ".corpus.rnd." + full[r.Intn(nMsg)]
		}
		k := scalarKinds[r.Intn(len(scalarKinds))]
		return k.t, ""
	}
	built := make([]*msgB, nMsg)
	for i := 0; i < nMsg; i++ {
		m := newMsg(names[i], "corpus.rnd."+full[i])
		built[i] = m
		used := map[int32]bool{}
		nf := 4 + r.Intn(7)
		oneofOpen := int32(-1)
		for j := 0; j < nf; j++ {
			name := fmt.Sprintf("f%d_%d", i, j)
			num := pickNum(used)
			t, tn := pickType()
			c := r.Intn(8)
			if c <= 5 {
				oneofOpen = -1 // members of a oneof are declared consecutively
			}
			switch c {
			case 0, 1, 2: // singular
				m.field(name, num, t, tn)
			case 3, 4: // repeated
				var packed *bool
				if t != tMsg && t != kt["string"] && t != kt["bytes"] {
					switch r.Intn(3) {
					case 0:
						packed = proto.Bool(false)
					case 1:
						packed = proto.Bool(true)
					}
				}
				m.repeated(name, num, t, tn, packed)
			case 5: // map
				if t == tMsg || t == tEnum || r.Intn(2) == 0 {
					m.mapField(name, num, kt[mapKeys[r.Intn(len(mapKeys))]], t, tn)
				} else {
					m.mapField(name, num, kt[mapKeys[r.Intn(len(mapKeys))]], t, "")
				}
			default: // oneof member (a new oneof, or the one that is open)
				if oneofOpen < 0 || r.Intn(3) == 0 {
					oneofOpen = m.oneofDecl(fmt.Sprintf("o%d_%d", i, j))
				}
				m.member(oneofOpen, name, num, t, tn)
			}
		}
	}
	built[0].m.EnumType = append(built[0].m.EnumType, ne)
	for i := nMsg - 1; i >= 0; i-- {
		if parent[i] < 0 {
			continue
		}
		pm := built[parent[i]].m
		at := r.Intn(len(pm.NestedType) + 1)
		pm.NestedType = append(pm.NestedType[:at], append([]*descriptorpb.DescriptorProto{built[i].m}, pm.NestedType[at:]...)...)
	}
	for i := 0; i < nMsg; i++ {
		if parent[i] < 0 {
			rf.MessageType = append(rf.MessageType, built[i].m)
		}
	}
	return []*descriptorpb.FileDescriptorProto{rf}
}
