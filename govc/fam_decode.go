package main

// C03: functional contracts of the generated unmarshal closure, per switch case (DESIGN.md Appendix C), mode bv.
// Under the case's own guards (the record carries the declared wire type, or the packed/unpacked alternative) the
// value stored into the message is FromWire_kind of the record's payload, read with the spec functions VarintVal /
// VarintEnd / little-endian loads over the input bytes, and iNdEx ends exactly at the end of the record.
// The varint decode loops are summarised by a proved postcondition (value == VarintVal, index == VarintEnd+1).

import (
	"fmt"
	"go/ast"
	"go/token"
	"strings"
)

type decCall struct {
	off, ln, target, guard string
	pos                    token.Pos
}

type decEngine struct {
	c     *Ctx
	ms    *MsgSchema
	x     PtrV
	u     *Unit
	cur   []*FieldSchema
	calls []decCall
}

func (d *decEngine) buf(st *State) (SliceV, bool) {
	v, ok := envByName(st, "dAtA", 1<<40)
	if !ok {
		return SliceV{}, false
	}
	sv, ok := v.(SliceV)
	return sv, ok
}

func (d *decEngine) at(st *State, pos string) (arr, idx string) {
	b, _ := d.buf(st)
	return d.c.sliceArr(st, b), d.c.addIdx(b.Off, pos)
}

func (d *decEngine) vval(st *State, pos string) string {
	a, i := d.at(st, pos)
	return "(VarintVal " + a + " " + i + ")"
}

func (d *decEngine) vend(st *State, pos string) string {
	b, _ := d.buf(st)
	a, i := d.at(st, pos)
	return "(bvsub (VarintEnd " + a + " " + i + ") " + b.Off + ")"
}

func (d *decEngine) le(st *State, pos string, w int) string {
	a, i := d.at(st, pos)
	t := ""
	for k := 0; k < w/8; k++ {
		b := fmt.Sprintf("(select %s (bvadd %s (_ bv%d 64)))", a, i, k)
		if t == "" {
			t = b
		} else {
			t = "(concat " + b + " " + t + ")"
		}
	}
	return t
}

// fromWire: the Go field value for a scalar kind from the 64-bit varint value
func fromWire(kind, src string) string {
	low32 := "((_ extract 31 0) " + src + ")"
	switch kind {
	case "int32", "uint32", "enum":
		return low32
	case "int64", "uint64":
		return src
	case "sint32":
		return fmt.Sprintf("(bvxor (bvlshr %s (_ bv1 32)) (bvneg (bvand %s (_ bv1 32))))", low32, low32)
	case "sint64":
		return fmt.Sprintf("(bvxor (bvlshr %s (_ bv1 64)) (bvneg (bvand %s (_ bv1 64))))", src, src)
	}
	return src
}

func isVarintKind(k string) bool {
	switch k {
	case "bool", "int32", "int64", "uint32", "uint64", "sint32", "sint64", "enum":
		return true
	}
	return false
}

// decLoopSpec: unmarshal's loop contracts with value-carrying summaries of the varint decode loops
func (d *decEngine) loopSpec(c *Ctx, ord int, loop ast.Stmt) *LoopSpec {
	ls := unmarshalLoopSpec(c, ord, loop)
	fs, ok := loop.(*ast.ForStmt)
	if !ok || ls == nil {
		return ls
	}
	if fs.Cond == nil {
		// target of `T |= conv(b&0x7F) << shift`
		var target ast.Expr
		ast.Inspect(fs.Body, func(n ast.Node) bool {
			if as, ok := n.(*ast.AssignStmt); ok && as.Tok == token.OR_ASSIGN && len(as.Lhs) == 1 {
				target = as.Lhs[0]
			}
			return true
		})
		base := ls.PostFn
		ls.PostFn = func(c *Ctx, before, after *State) string {
			r := base(c, before, after)
			i0v, ok0 := envByName(before, "iNdEx", fs.Pos())
			i1v, ok1 := envByName(after, "iNdEx", fs.Pos())
			if !ok0 || !ok1 || target == nil {
				return r
			}
			i0, i1 := i0v.(Scalar), i1v.(Scalar)
			save := c.noSafeNil
			c.noSafeNil = true
			t0, okA := c.eval(target, before).(Scalar)
			t1, okB := c.eval(target, after).(Scalar)
			c.noSafeNil = save
			if !okA || !okB || t0.S.K != "bv" {
				return r
			}
			a, i := d.at(after, i0.T)
			val := "(VarintVal " + a + " " + i + ")"
			if t0.S.W < 64 {
				val = fmt.Sprintf("((_ extract %d 0) %s)", t0.S.W-1, val)
			}
			end := d.vend(after, i0.T)
			ea, ei := d.at(after, end)
			return and(r, and("(= "+i1.T+" (bvadd "+end+" (_ bv1 64)))", and("(bvult (select "+ea+" "+ei+") #x80)", "(= "+t1.T+" (bvor "+t0.T+" "+val+"))")))
		}
		return ls
	}
	// packed element loop of a repeated scalar: per-iteration functional obligation
	if len(d.cur) == 1 && d.cur[0].Rep && !d.cur[0].IsMap {
		f := d.cur[0]
		ls.BodyObl = func(c *Ctx, before, after *State, _ string) {
			i0v, ok0 := envByName(before, "iNdEx", fs.Pos())
			i1v, ok1 := envByName(after, "iNdEx", fs.Pos())
			l0, okA := c.loadField(before, d.x, f.GoName).(ListV)
			l1, okB := c.loadField(after, d.x, f.GoName).(ListV)
			if !ok0 || !ok1 || !okA || !okB {
				return
			}
			s := i0v.(Scalar).T
			val, next, ok := d.scalarSpec(after, f, s)
			if !ok {
				return
			}
			goal := and("(= "+l1.Len+" (bvadd "+l0.Len+" (_ bv1 64)))", and("(= (select "+l1.Elems+" "+l0.Len+") "+val+")", "(= "+i1v.(Scalar).T+" "+next+")"))
			c.addObl(Obl{Name: fmt.Sprintf("%s/%s/packed-element[appended == FromWire]", d.u.Name, f.GoName), Kind: "decode", Guard: after.guard, Goal: goal, Pos: c.pos(fs.Pos()),
				Text: "each element of a packed run is decoded with the field's wire encoding and appended in order"})
		}
	}
	return ls
}

// scalarSpec: (value term of the Go element type, index after the payload) for a scalar payload at position s
func (d *decEngine) scalarSpec(st *State, f *FieldSchema, s string) (val, next string, ok bool) {
	switch {
	case f.Kind == "bool":
		return "(not (= " + d.vval(st, s) + " (_ bv0 64)))", "(bvadd " + d.vend(st, s) + " (_ bv1 64))", true
	case isVarintKind(f.Kind):
		return fromWire(f.Kind, d.vval(st, s)), "(bvadd " + d.vend(st, s) + " (_ bv1 64))", true
	case fixedWidth(f.Kind) == 4:
		return d.le(st, s, 32), "(bvadd " + s + " (_ bv4 64))", true
	case fixedWidth(f.Kind) == 8:
		return d.le(st, s, 64), "(bvadd " + s + " (_ bv8 64))", true
	}
	return "", "", false
}

func (d *decEngine) onCase(c *Ctx, cc *ast.CaseClause, st *State) {
	d.cur = nil
	for _, ex := range cc.List {
		if v, ok := c.constVal(ex); ok {
			if sc, ok := v.(Scalar); ok {
				if n, ok := smtValToBig(sc.T); ok {
					for _, f := range d.ms.Fields {
						if int64(f.Num) == n.Int64() {
							d.cur = append(d.cur, f)
						}
					}
				}
			}
		}
	}
}

func (d *decEngine) onCaseExit(c *Ctx, cc *ast.CaseClause, e, x1 *State) {
	if cc.List == nil || len(d.cur) != 1 || c.depth > 0 {
		return
	}
	f := d.cur[0]
	sv, ok := envByName(e, "iNdEx", cc.Pos())
	xv, ok2 := envByName(x1, "iNdEx", cc.End())
	wtv, ok3 := envByName(e, "wireType", cc.Pos())
	if !ok || !ok2 || !ok3 {
		return
	}
	s, iEnd, wt := sv.(Scalar).T, xv.(Scalar).T, wtv.(Scalar).T
	name := func(cl string) string { return fmt.Sprintf("%s/%s/%s", d.u.Name, f.GoName, cl) }
	add := func(cl, goal, text string) {
		c.addObl(Obl{Name: name(cl), Kind: "decode", Guard: x1.guard, Goal: goal, Pos: c.pos(cc.Pos()), Text: text})
	}
	wtIs := func(n int) string { return fmt.Sprintf("(= %s (_ bv%d 64))", wt, n) }
	lenAt := d.vval(x1, s)                              // length prefix as a 64-bit value
	start := "(bvadd " + d.vend(x1, s) + " (_ bv1 64))" // first payload byte of a length-delimited record
	recEnd := "(bvadd " + start + " " + lenAt + ")"
	holder := d.x
	goName := f.GoName
	if f.Oneof != nil {
		// the member must be selected afterwards
		iv := c.loadField(x1, d.x, f.Oneof.GoName).(IfaceV)
		add("oneof[member selected]", fmt.Sprintf("(and (= %s %d) (not (= %s 0)))", iv.Tag, c.typeTag(f.Wrapper), iv.Ref), "a record of a oneof member selects that member (replacing any other)")
		holder = PtrV{Ref: iv.Ref, Named: f.Wrapper}
	}
	switch {
	case f.IsMap:
		add("record[consumed exactly]", "(= "+iEnd+" "+recEnd+")", "the case consumes exactly the map entry record")
	case f.Rep:
		l0, okA := c.loadField(e, d.x, goName).(ListV)
		l1, okB := c.loadField(x1, d.x, goName).(ListV)
		if !okA || !okB {
			return
		}
		if val, next, ok := d.scalarSpec(x1, f, s); ok {
			add("unpacked-element[appended == FromWire]", implies(wtIs(f.elemWireType()), and("(= "+l1.Len+" (bvadd "+l0.Len+" (_ bv1 64)))", and("(= (select "+l1.Elems+" "+l0.Len+") "+val+")", "(= "+iEnd+" "+next+")"))),
				"an unpacked occurrence of a repeated scalar appends FromWire(payload) and consumes exactly the record")
			add("packed-run[consumed]", implies(wtIs(2), "(bvsge "+iEnd+" "+recEnd+")"), "a packed occurrence is accepted and consumes the length-delimited run (its elements are decoded one by one: see packed-element)")
		} else {
			// strings, bytes, messages: one element per record
			add("element[appended, record consumed]", and("(= "+l1.Len+" (bvadd "+l0.Len+" (_ bv1 64)))", "(= "+iEnd+" "+recEnd+")"), "a length-delimited occurrence appends one element and consumes exactly the record")
			if f.Kind == "message" {
				d.messageCall(c, x1, name("element[decoded into the new element]"), start, lenAt, "(select "+l1.Elems+" "+l0.Len+")", cc)
			}
		}
	case isVarintKind(f.Kind) || fixedWidth(f.Kind) > 0:
		val, next, _ := d.scalarSpec(x1, f, s)
		cur := c.loadField(x1, holder, goName).(Scalar)
		add("value[== FromWire]", and("(= "+cur.T+" "+val+")", "(= "+iEnd+" "+next+")"), "the stored value is FromWire_"+f.Kind+"(payload) (last one wins) and exactly the record is consumed")
	case f.Kind == "string" || f.Kind == "bytes":
		cur := c.loadField(x1, holder, goName).(SliceV)
		goal := and("(= "+cur.Len+" "+lenAt+")", "(= "+iEnd+" "+recEnd+")")
		if f.Kind == "string" {
			b, _ := d.buf(x1)
			c.declareFun("ShiftOf", "("+c.byteArrSort()+" "+c.idx().smt()+") "+c.byteArrSort())
			goal = and(goal, or("(= "+lenAt+" (_ bv0 64))", or("(= "+c.sliceArr(x1, cur)+" (ShiftOf "+c.sliceArr(x1, b)+" "+c.addIdx(b.Off, start)+"))", and("(= "+c.addIdx(b.Off, start)+" (_ bv0 64))", "(= "+c.sliceArr(x1, cur)+" "+c.sliceArr(x1, b)+")"))))
		}
		add("value[== payload bytes]", goal, "the stored string/bytes has the payload's length (string: its bytes are the payload) and exactly the record is consumed")
	case f.Kind == "message":
		cur := c.loadField(x1, holder, goName).(PtrV)
		add("record[consumed exactly]", "(= "+iEnd+" "+recEnd+")", "the case consumes exactly the length-delimited record")
		d.messageCall(c, x1, name("message[decoded from exactly the payload]"), start, lenAt, cur.Ref, cc)
		if f.Oneof == nil {
			old := c.loadField(e, d.x, goName).(PtrV)
			add("message[merges into the existing sub-message]", implies("(not (= "+old.Ref+" 0))", "(= "+cur.Ref+" "+old.Ref+")"), "a repeated occurrence of a singular message field decodes into the existing sub-message (merge), it does not replace it")
		} else {
			oiv := c.loadField(e, d.x, f.Oneof.GoName).(IfaceV)
			oldMsg := c.loadField(e, PtrV{Ref: oiv.Ref, Named: f.Wrapper}, f.GoName).(PtrV)
			sel := fmt.Sprintf("(and (= %s %d) (not (= %s 0)))", oiv.Tag, c.typeTag(f.Wrapper), oldMsg.Ref)
			add("oneof-message[merges into the already selected member]", implies(sel, "(= "+cur.Ref+" "+oldMsg.Ref+")"), "a repeated occurrence of the selected oneof message member merges into it")
		}
	}
}

// messageCall: some nested decode in this case was made on exactly dAtA[start : start+len) into target
func (d *decEngine) messageCall(c *Ctx, x1 *State, name, start, ln, target string, cc *ast.CaseClause) {
	b, _ := d.buf(x1)
	goal := "false"
	for _, k := range d.calls {
		if k.pos < cc.Pos() || k.pos > cc.End() {
			continue
		}
		goal = or(goal, and(k.guard, and("(= "+k.off+" "+c.addIdx(b.Off, start)+")", and("(= "+k.ln+" "+ln+")", "(= "+k.target+" "+target+")"))))
	}
	c.addObl(Obl{Name: name, Kind: "decode", Guard: x1.guard, Goal: goal, Pos: c.pos(cc.Pos()), Text: "the nested decode reads exactly the record's payload bytes into the message that ends up in the field"})
}

var _ = strings.HasPrefix
