package main

// C03: functional contracts of the generated unmarshal closure, per switch case (DESIGN.md Appendix C), mode bv.
// Under the case's own guards (the record carries the declared wire type, or the packed/unpacked alternative) the
// value stored into the message is FromWire_kind of the record's payload, read with the spec functions VarintVal /
// VarintEnd / little-endian loads over the input bytes, and iNdEx ends exactly at the end of the record.
// The varint decode loops are summarised by a proved postcondition (value == VarintVal, index == VarintEnd+1).

import (
	"fmt"
	"go/ast"
	"go/token"
	"strings"
)

type decCall struct {
	off, ln, target, guard string
	pos                    token.Pos
}

type decEngine struct {
	c     *Ctx
	ms    *MsgSchema
	x     PtrV
	u     *Unit
	cur   []*FieldSchema
	calls []decCall
	entry *State // state at the start of the current case
	// source ranges of the packed element loops that carry the per-iteration FromWire obligation
	packedLoops [][2]token.Pos
}

func (d *decEngine) buf(st *State) (SliceV, bool) {
	v, ok := envByName(st, "dAtA", 1<<40)
	if !ok {
		return SliceV{}, false
	}
	sv, ok := v.(SliceV)
	return sv, ok
}

func (d *decEngine) at(st *State, pos string) (arr, idx string) {
	b, _ := d.buf(st)
	return d.c.sliceArr(st, b), d.c.addIdx(b.Off, pos)
}

func (d *decEngine) vval(st *State, pos string) string {
	a, i := d.at(st, pos)
	return "(VarintVal " + a + " " + i + ")"
}

func (d *decEngine) vend(st *State, pos string) string {
	b, _ := d.buf(st)
	a, i := d.at(st, pos)
	return "(bvsub (VarintEnd " + a + " " + i + ") " + b.Off + ")"
}

func (d *decEngine) le(st *State, pos string, w int) string {
	a, i := d.at(st, pos)
	t := ""
	for k := 0; k < w/8; k++ {
		b := fmt.Sprintf("(select %s (bvadd %s (_ bv%d 64)))", a, i, k)
		if t == "" {
			t = b
		} else {
			t = "(concat " + b + " " + t + ")"
		}
	}
	return t
}

// fromWire: the Go field value for a scalar kind from the 64-bit varint value
func fromWire(kind, src string) string {
	low32 := "((_ extract 31 0) " + src + ")"
	switch kind {
	case "int32", "uint32", "enum":
		return low32
	case "int64", "uint64":
		return src
	case "sint32":
		return fmt.Sprintf("(bvxor (bvlshr %s (_ bv1 32)) (bvneg (bvand %s (_ bv1 32))))", low32, low32)
	case "sint64":
		return fmt.Sprintf("(bvxor (bvlshr %s (_ bv1 64)) (bvneg (bvand %s (_ bv1 64))))", src, src)
	}
	return src
}

func isVarintKind(k string) bool {
	switch k {
	case "bool", "int32", "int64", "uint32", "uint64", "sint32", "sint64", "enum":
		return true
	}
	return false
}

// decLoopSpec: unmarshal's loop contracts with value-carrying summaries of the varint decode loops
func (d *decEngine) loopSpec(c *Ctx, ord int, loop ast.Stmt) *LoopSpec {
	ls := unmarshalLoopSpec(c, ord, loop)
	fs, ok := loop.(*ast.ForStmt)
	if !ok || ls == nil {
		return ls
	}
	if fs.Cond == nil {
		// target of `T |= conv(b&0x7F) << shift`
		var target ast.Expr
		ast.Inspect(fs.Body, func(n ast.Node) bool {
			if as, ok := n.(*ast.AssignStmt); ok && as.Tok == token.OR_ASSIGN && len(as.Lhs) == 1 {
				target = as.Lhs[0]
			}
			return true
		})
		base := ls.PostFn
		ls.PostFn = func(c *Ctx, before, after *State) string {
			r := base(c, before, after)
			i0v, ok0 := envByName(before, "iNdEx", fs.Pos())
			i1v, ok1 := envByName(after, "iNdEx", fs.Pos())
			if !ok0 || !ok1 || target == nil {
				return r
			}
			i0, i1 := i0v.(Scalar), i1v.(Scalar)
			save := c.noSafeNil
			c.noSafeNil = true
			t0, okA := c.eval(target, before).(Scalar)
			t1, okB := c.eval(target, after).(Scalar)
			c.noSafeNil = save
			if !okA || !okB || t0.S.K != "bv" {
				return r
			}
			a, i := d.at(after, i0.T)
			val := "(VarintVal " + a + " " + i + ")"
			if t0.S.W < 64 {
				val = fmt.Sprintf("((_ extract %d 0) %s)", t0.S.W-1, val)
			}
			end := d.vend(after, i0.T)
			ea, ei := d.at(after, end)
			return and(r, and("(= "+i1.T+" (bvadd "+end+" (_ bv1 64)))", and("(bvult (select "+ea+" "+ei+") #x80)", "(= "+t1.T+" (bvor "+t0.T+" "+val+"))")))
		}
		return ls
	}
	if len(d.cur) == 1 && d.cur[0].IsMap {
		d.mapEntryLoop(ls, fs, d.cur[0])
		return ls
	}
	// packed element loop of a repeated scalar: per-iteration functional obligation
	if len(d.cur) == 1 && d.cur[0].Rep && !d.cur[0].IsMap {
		f := d.cur[0]
		d.packedLoops = append(d.packedLoops, [2]token.Pos{fs.Pos(), fs.End()})
		ls.EntryObl = func(c *Ctx, pre *State) {
			if d.entry == nil {
				return
			}
			l0, okA := c.loadField(d.entry, d.x, f.GoName).(ListV)
			l1, okB := c.loadField(pre, d.x, f.GoName).(ListV)
			if !okA || !okB {
				return
			}
			c.addObl(Obl{Name: fmt.Sprintf("%s/%s/packed-run[elements decoded earlier are kept]", d.u.Name, f.GoName), Kind: "decode", OpaqueSpec: true, Guard: pre.guard,
				Goal: and("(= "+l1.Len+" "+l0.Len+")", or("(= "+l0.Len+" "+c.ilit(0)+")", "(= "+l1.Elems+" "+l0.Elems+")")), Pos: c.pos(fs.Pos()),
				Text: "when the element loop of a packed run starts the list still holds exactly the elements it held at the start of the record (pre-allocation must not drop them)"})
		}
		ls.BodyObl = func(c *Ctx, before, after *State, _ string) {
			i0v, ok0 := envByName(before, "iNdEx", fs.Pos())
			i1v, ok1 := envByName(after, "iNdEx", fs.Pos())
			l0, okA := c.loadField(before, d.x, f.GoName).(ListV)
			l1, okB := c.loadField(after, d.x, f.GoName).(ListV)
			if !ok0 || !ok1 || !okA || !okB {
				return
			}
			s := i0v.(Scalar).T
			val, next, ok := d.scalarSpec(after, f, s)
			if !ok {
				return
			}
			goal := and("(= "+l1.Len+" (bvadd "+l0.Len+" (_ bv1 64)))", and("(= (select "+l1.Elems+" "+l0.Len+") "+val+")", "(= "+i1v.(Scalar).T+" "+next+")"))
			c.addObl(Obl{Name: fmt.Sprintf("%s/%s/packed-element[appended == FromWire]", d.u.Name, f.GoName), Kind: "decode", OpaqueSpec: true, Guard: after.guard, Goal: goal, Pos: c.pos(fs.Pos()),
				Text: "each element of a packed run is decoded with the field's wire encoding and appended in order"})
		}
	}
	return ls
}

// scalarSpec: (value term of the Go element type, index after the payload) for a scalar payload at position s
func (d *decEngine) scalarSpec(st *State, f *FieldSchema, s string) (val, next string, ok bool) {
	switch {
	case f.Kind == "bool":
		return "(not (= " + d.vval(st, s) + " (_ bv0 64)))", "(bvadd " + d.vend(st, s) + " (_ bv1 64))", true
	case isVarintKind(f.Kind):
		return fromWire(f.Kind, d.vval(st, s)), "(bvadd " + d.vend(st, s) + " (_ bv1 64))", true
	case fixedWidth(f.Kind) == 4:
		return d.le(st, s, 32), "(bvadd " + s + " (_ bv4 64))", true
	case fixedWidth(f.Kind) == 8:
		return d.le(st, s, 64), "(bvadd " + s + " (_ bv8 64))", true
	}
	return "", "", false
}

func (d *decEngine) onCase(c *Ctx, cc *ast.CaseClause, st *State) {
	d.cur = nil
	d.entry = st.clone()
	for _, ex := range cc.List {
		if v, ok := c.constVal(ex); ok {
			if sc, ok := v.(Scalar); ok {
				if n, ok := smtValToBig(sc.T); ok {
					for _, f := range d.ms.Fields {
						if int64(f.Num) == n.Int64() {
							d.cur = append(d.cur, f)
						}
					}
				}
			}
		}
	}
}

func (d *decEngine) onCaseExit(c *Ctx, cc *ast.CaseClause, e, x1 *State) {
	if cc.List == nil || len(d.cur) != 1 || c.depth > 0 {
		return
	}
	f := d.cur[0]
	sv, ok := envByName(e, "iNdEx", cc.Pos())
	xv, ok2 := envByName(x1, "iNdEx", cc.End())
	wtv, ok3 := envByName(e, "wireType", cc.Pos())
	if !ok || !ok2 || !ok3 {
		return
	}
	s, iEnd, wt := sv.(Scalar).T, xv.(Scalar).T, wtv.(Scalar).T
	name := func(cl string) string { return fmt.Sprintf("%s/%s/%s", d.u.Name, f.GoName, cl) }
	add := func(cl, goal, text string) {
		c.addObl(Obl{Name: name(cl), Kind: "decode", OpaqueSpec: true, Guard: x1.guard, Goal: goal, Pos: c.pos(cc.Pos()), Text: text})
	}
	wtIs := func(n int) string { return fmt.Sprintf("(= %s (_ bv%d 64))", wt, n) }
	lenAt := d.vval(x1, s)                              // length prefix as a 64-bit value
	start := "(bvadd " + d.vend(x1, s) + " (_ bv1 64))" // first payload byte of a length-delimited record
	recEnd := "(bvadd " + start + " " + lenAt + ")"
	holder := d.x
	goName := f.GoName
	if f.Oneof != nil {
		// the member must be selected afterwards
		iv := c.loadField(x1, d.x, f.Oneof.GoName).(IfaceV)
		add("oneof[member selected]", fmt.Sprintf("(and (= %s %d) (not (= %s 0)))", iv.Tag, c.typeTag(f.Wrapper), iv.Ref), "a record of a oneof member selects that member (replacing any other)")
		holder = PtrV{Ref: iv.Ref, Named: f.Wrapper}
	}
	switch {
	case f.IsMap:
		add("record[consumed exactly]", "(= "+iEnd+" "+recEnd+")", "the case consumes exactly the map entry record")
		d.mapCaseExit(c, cc, f, e, x1, add)
	case f.Rep:
		l0, okA := c.loadField(e, d.x, goName).(ListV)
		l1, okB := c.loadField(x1, d.x, goName).(ListV)
		if !okA || !okB {
			return
		}
		if val, next, ok := d.scalarSpec(x1, f, s); ok {
			// every append to the field in this case is either the single append of the unpacked form or lies inside the
			// element loop that carries the per-iteration obligation: no other code path may grow the list
			for _, ap := range c.listAppends {
				if ap.Pos < cc.Pos() || ap.Pos > cc.End() || ap.Target != "x."+goName {
					continue
				}
				inLoop := false
				for _, pl := range d.packedLoops {
					if ap.Pos >= pl[0] && ap.Pos <= pl[1] {
						inLoop = true
					}
				}
				if !inLoop {
					c.addObl(Obl{Name: name("packed-run[elements are appended only by the element loop]"), Kind: "decode", OpaqueSpec: true, Guard: ap.Guard, Goal: wtIs(f.elemWireType()), Pos: c.pos(ap.Pos),
						Text: "an append to the field outside the packed element loop happens only for the unpacked wire type (one element per record)"})
				}
			}
			add("unpacked-element[appended == FromWire]", implies(wtIs(f.elemWireType()), and("(= "+l1.Len+" (bvadd "+l0.Len+" (_ bv1 64)))", and("(= (select "+l1.Elems+" "+l0.Len+") "+val+")", "(= "+iEnd+" "+next+")"))),
				"an unpacked occurrence of a repeated scalar appends FromWire(payload) and consumes exactly the record")
			add("packed-run[consumed]", implies(wtIs(2), "(bvsge "+iEnd+" "+recEnd+")"), "a packed occurrence is accepted and consumes the length-delimited run (its elements are decoded one by one: see packed-element)")
		} else {
			// strings, bytes, messages: one element per record
			add("element[appended, record consumed]", and("(= "+l1.Len+" (bvadd "+l0.Len+" (_ bv1 64)))", "(= "+iEnd+" "+recEnd+")"), "a length-delimited occurrence appends one element and consumes exactly the record")
			if f.Kind == "message" {
				d.messageCall(c, x1, name("element[decoded into the new element]"), start, lenAt, "(select "+l1.Elems+" "+l0.Len+")", cc)
			}
		}
	case isVarintKind(f.Kind) || fixedWidth(f.Kind) > 0:
		val, next, _ := d.scalarSpec(x1, f, s)
		cur := c.loadField(x1, holder, goName).(Scalar)
		add("value[== FromWire]", and("(= "+cur.T+" "+val+")", "(= "+iEnd+" "+next+")"), "the stored value is FromWire_"+f.Kind+"(payload) (last one wins) and exactly the record is consumed")
	case f.Kind == "string" || f.Kind == "bytes":
		cur := c.loadField(x1, holder, goName).(SliceV)
		goal := and("(= "+cur.Len+" "+lenAt+")", "(= "+iEnd+" "+recEnd+")")
		if f.Kind == "string" {
			b, _ := d.buf(x1)
			c.declareFun("ShiftOf", "("+c.byteArrSort()+" "+c.idx().smt()+") "+c.byteArrSort())
			goal = and(goal, or("(= "+lenAt+" (_ bv0 64))", or("(= "+c.sliceArr(x1, cur)+" (ShiftOf "+c.sliceArr(x1, b)+" "+c.addIdx(b.Off, start)+"))", and("(= "+c.addIdx(b.Off, start)+" (_ bv0 64))", "(= "+c.sliceArr(x1, cur)+" "+c.sliceArr(x1, b)+")"))))
		}
		add("value[== payload bytes]", goal, "the stored string/bytes has the payload's length (string: its bytes are the payload) and exactly the record is consumed")
	case f.Kind == "message":
		cur := c.loadField(x1, holder, goName).(PtrV)
		add("record[consumed exactly]", "(= "+iEnd+" "+recEnd+")", "the case consumes exactly the length-delimited record")
		d.messageCall(c, x1, name("message[decoded from exactly the payload]"), start, lenAt, cur.Ref, cc)
		if f.Oneof == nil {
			old := c.loadField(e, d.x, goName).(PtrV)
			add("message[merges into the existing sub-message]", implies("(not (= "+old.Ref+" 0))", "(= "+cur.Ref+" "+old.Ref+")"), "a repeated occurrence of a singular message field decodes into the existing sub-message (merge), it does not replace it")
		} else {
			oiv := c.loadField(e, d.x, f.Oneof.GoName).(IfaceV)
			oldMsg := c.loadField(e, PtrV{Ref: oiv.Ref, Named: f.Wrapper}, f.GoName).(PtrV)
			sel := fmt.Sprintf("(and (= %s %d) (not (= %s 0)) (not (= %s 0)))", oiv.Tag, c.typeTag(f.Wrapper), oiv.Ref, oldMsg.Ref)
			add("oneof-message[merges into the already selected member]", implies(sel, "(= "+cur.Ref+" "+oldMsg.Ref+")"), "a repeated occurrence of the selected oneof message member merges into it")
		}
	}
}

// messageCall: some nested decode in this case was made on exactly dAtA[start : start+len) into target
func (d *decEngine) messageCall(c *Ctx, x1 *State, name, start, ln, target string, cc *ast.CaseClause) {
	goal := d.someCall(c, x1, start, ln, target, cc.Pos(), cc.End())
	c.addObl(Obl{Name: name, Kind: "decode", OpaqueSpec: true, Guard: x1.guard, Goal: goal, Pos: c.pos(cc.Pos()), Text: "the nested decode reads exactly the record's payload bytes into the message that ends up in the field"})
}

func (d *decEngine) someCall(c *Ctx, x1 *State, start, ln, target string, lo, hi token.Pos) string {
	b, _ := d.buf(x1)
	goal := "false"
	for _, k := range d.calls {
		if k.pos < lo || k.pos > hi {
			continue
		}
		goal = or(goal, and(k.guard, and("(= "+k.off+" "+c.addIdx(b.Off, start)+")", and("(= "+k.ln+" "+ln+")", "(= "+k.target+" "+target+")"))))
	}
	return goal
}

// ---- map entries ----
//
// The entry record is a sequence of fields; per iteration of the entry loop (an arbitrary one: the loop head is
// havocked) field 1 sets the key variable to FromWire_key(payload), field 2 sets the value variable to
// FromWire_value(payload), anything else leaves both alone; both start at the zero value of their kind; and at the
// end of the case the message's map is the map at the start of the case (a fresh empty one if that was nil) with
// exactly (key variable, value variable) stored.  Together: last occurrence wins inside an entry, missing parts
// take the default, later entries overwrite earlier ones with the same key, other keys are kept.

// valSame: structural identity of two symbolic values of the same Go type
func (c *Ctx) valSame(st *State, a, b Val) string {
	switch x := a.(type) {
	case Scalar:
		if y, ok := b.(Scalar); ok {
			return "(= " + x.T + " " + y.T + ")"
		}
	case PtrV:
		if y, ok := b.(PtrV); ok {
			return "(= " + x.Ref + " " + y.Ref + ")"
		}
	case SliceV:
		if y, ok := b.(SliceV); ok {
			return and("(= "+x.Len+" "+y.Len+")", and("(= "+x.Nil+" "+y.Nil+")", or("(= "+x.Len+" "+c.ilit(0)+")", and("(= "+x.Off+" "+y.Off+")", "(= "+c.sliceArr(st, x)+" "+c.sliceArr(st, y)+")"))))
		}
	}
	return "false"
}

// payloadSpec: obligation that variable value v (after the iteration) is FromWire_f of the payload that starts at p,
// and the index after that payload
func (d *decEngine) payloadSpec(c *Ctx, st *State, f *FieldSchema, p string, v Val, lo, hi token.Pos) (goal, next string, ok bool) {
	if val, nx, isScalar := d.scalarSpec(st, f, p); isScalar {
		sc, isS := v.(Scalar)
		if !isS {
			return "", "", false
		}
		return "(= " + sc.T + " " + val + ")", nx, true
	}
	lenAt := d.vval(st, p)
	start := "(bvadd " + d.vend(st, p) + " (_ bv1 64))"
	next = "(bvadd " + start + " " + lenAt + ")"
	switch f.Kind {
	case "string", "bytes":
		cur, isB := v.(SliceV)
		if !isB {
			return "", "", false
		}
		goal = "(= " + cur.Len + " " + lenAt + ")"
		if f.Kind == "string" {
			b, _ := d.buf(st)
			c.declareFun("ShiftOf", "("+c.byteArrSort()+" "+c.idx().smt()+") "+c.byteArrSort())
			direct := and("(= "+cur.Off+" "+c.addIdx(b.Off, start)+")", "(= "+c.sliceArr(st, cur)+" "+c.sliceArr(st, b)+")")
			shifted := and("(= "+cur.Off+" "+c.ilit(0)+")", "(= "+c.sliceArr(st, cur)+" (ShiftOf "+c.sliceArr(st, b)+" "+c.addIdx(b.Off, start)+"))")
			goal = and(goal, or("(= "+lenAt+" (_ bv0 64))", or(direct, shifted)))
		}
		return goal, next, true
	case "message":
		cur, isP := v.(PtrV)
		if !isP {
			return "", "", false
		}
		return and("(not (= "+cur.Ref+" 0))", d.someCall(c, st, start, lenAt, cur.Ref, lo, hi)), next, true
	}
	return "", "", false
}

func (d *decEngine) mapEntryLoop(ls *LoopSpec, fs *ast.ForStmt, f *FieldSchema) {
	name := func(cl string) string { return fmt.Sprintf("%s/%s/%s", d.u.Name, f.GoName, cl) }
	ls.EntryObl = func(c *Ctx, pre *State) {
		kv, ok1 := envByName(pre, "mapkey", fs.Pos())
		vv, ok2 := envByName(pre, "mapvalue", fs.Pos())
		if !ok1 || !ok2 {
			return
		}
		goal := c.valSame(pre, kv, c.zeroValue(f.Key.GoType))
		text := "before the first field of an entry the key and value variables hold the zero value of their kind (missing parts take the default)"
		if f.Val.Kind != "message" {
			goal = and(goal, c.valSame(pre, vv, c.zeroValue(f.Val.GoType)))
		} else if p, ok := vv.(PtrV); ok {
			goal = and(goal, "(not (= "+p.Ref+" 0))")
			text = "before the first field of an entry the key variable holds the zero value and the value variable a non-nil (new, empty) message"
		}
		c.addObl(Obl{Name: name("entry-defaults[key and value start at zero]"), Kind: "decode", OpaqueSpec: true, Guard: pre.guard, Goal: goal, Pos: c.pos(fs.Pos()), Text: text})
	}
	ls.BodyObl = func(c *Ctx, before, after *State, _ string) {
		i0v, ok0 := envByName(before, "iNdEx", fs.Pos())
		i1v, ok1 := envByName(after, "iNdEx", fs.Pos())
		k0, ok2 := envByName(before, "mapkey", fs.Pos())
		k1, ok3 := envByName(after, "mapkey", fs.Pos())
		v0, ok4 := envByName(before, "mapvalue", fs.Pos())
		v1, ok5 := envByName(after, "mapvalue", fs.Pos())
		if !(ok0 && ok1 && ok2 && ok3 && ok4 && ok5) {
			return
		}
		s := i0v.(Scalar).T
		i1 := i1v.(Scalar).T
		tag := d.vval(after, s)
		p := "(bvadd " + d.vend(after, s) + " (_ bv1 64))"
		fn := "((_ extract 31 0) (bvlshr " + tag + " (_ bv3 64)))"
		is := func(n int) string { return fmt.Sprintf("(= %s (_ bv%d 32))", fn, n) }
		if g, next, ok := d.payloadSpec(c, after, f.Key, p, k1, fs.Pos(), fs.End()); ok {
			c.addObl(Obl{Name: name("entry-key[field 1 sets the key to FromWire, value kept]"), Kind: "decode", OpaqueSpec: true, Guard: after.guard,
				Goal: implies(is(1), and(g, and("(= "+i1+" "+next+")", c.valSame(after, v0, v1)))), Pos: c.pos(fs.Pos()),
				Text: "field 1 of a map entry decodes the key with the key kind's wire encoding, consumes exactly that field and leaves the value alone"})
		}
		if g, next, ok := d.payloadSpec(c, after, f.Val, p, v1, fs.Pos(), fs.End()); ok {
			c.addObl(Obl{Name: name("entry-value[field 2 sets the value to FromWire, key kept]"), Kind: "decode", OpaqueSpec: true, Guard: after.guard,
				Goal: implies(is(2), and(g, and("(= "+i1+" "+next+")", c.valSame(after, k0, k1)))), Pos: c.pos(fs.Pos()),
				Text: "field 2 of a map entry decodes the value with the value kind's wire encoding, consumes exactly that field and leaves the key alone"})
		}
		c.addObl(Obl{Name: name("entry-other[other fields leave key and value alone]"), Kind: "decode", OpaqueSpec: true, Guard: after.guard,
			Goal: implies(and(not(is(1)), not(is(2))), and(c.valSame(after, k0, k1), c.valSame(after, v0, v1))), Pos: c.pos(fs.Pos()),
			Text: "a field of a map entry other than 1 and 2 is skipped"})
		// the skipped field is the record that starts at the iteration's start index (its tag included): for the
		// non-group wire types the index after the iteration is the end of exactly that record
		wt := "(bvand " + tag + " (_ bv7 64))"
		isw := func(n int) string { return fmt.Sprintf("(= %s (_ bv%d 64))", wt, n) }
		eq := func(e string) string { return "(= " + i1 + " " + e + ")" }
		one := "(_ bv1 64)"
		length := and(implies(isw(0), eq("(bvadd "+d.vend(after, p)+" "+one+")")),
			and(implies(isw(1), eq("(bvadd "+p+" (_ bv8 64))")),
				and(implies(isw(5), eq("(bvadd "+p+" (_ bv4 64))")),
					implies(isw(2), eq("(bvadd (bvadd "+d.vend(after, p)+" "+one+") "+d.vval(after, p)+")")))))
		c.addObl(Obl{Name: name("entry-other-length[other fields consume exactly their own record]"), Kind: "decode", OpaqueSpec: true, Guard: after.guard,
			Goal: implies(and(not(is(1)), not(is(2))), length), Pos: c.pos(fs.Pos()),
			Text: "a field of a map entry other than 1 and 2 is skipped from its tag: the index moves to the end of exactly that record (wire types 0, 1, 2, 5)"})
	}
}

func (d *decEngine) mapCaseExit(c *Ctx, cc *ast.CaseClause, f *FieldSchema, e, x1 *State, add func(cl, goal, text string)) {
	m0, okA := c.loadField(e, d.x, f.GoName).(MapV)
	m1, okB := c.loadField(x1, d.x, f.GoName).(MapV)
	kv, ok1 := envByName(x1, "mapkey", cc.End())
	vv, ok2 := envByName(x1, "mapvalue", cc.End())
	if !okA || !okB || !ok1 || !ok2 {
		return
	}
	goal := "false"
	for _, ev := range c.mapEvents {
		if ev.Pos < cc.Pos() || ev.Pos > cc.End() {
			continue
		}
		made := "false"
		for _, id := range c.mapMakes {
			made = or(made, "(= "+ev.Old.Id+" "+id+")")
		}
		base := or(and(not(m0.Nil), "(= "+ev.Old.Id+" "+m0.Id+")"), and(m0.Nil, made))
		goal = or(goal, and(ev.Guard, and("(= "+ev.New.Id+" "+m1.Id+")", and(base, and(c.valSame(x1, ev.K, kv), c.valSame(x1, ev.V, vv))))))
	}
	add("entry[map == map at entry with (key, value) stored]", goal,
		"at the end of a map record the field is the map it was before (a fresh empty map if it was nil) with exactly the decoded (key, value) stored: later entries win, other keys are kept")
}

var _ = strings.HasPrefix
