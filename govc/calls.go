package main

// Calls: conversions, builtins, contract-based (modular) calls, inlining of contract-less helpers, extern models.

import (
	"fmt"
	"go/ast"
	"go/token"
	"go/types"
	"strings"
)

func (c *Ctx) calleeFunc(x *ast.CallExpr) *types.Func {
	switch f := x.Fun.(type) {
	case *ast.Ident:
		fn, _ := c.info.Uses[f].(*types.Func)
		return fn
	case *ast.SelectorExpr:
		fn, _ := c.info.Uses[f.Sel].(*types.Func)
		return fn
	case *ast.ParenExpr:
		return c.calleeFunc(&ast.CallExpr{Fun: f.X})
	}
	return nil
}

func funcKey(fn *types.Func) string {
	if fn == nil || fn.Pkg() == nil {
		return ""
	}
	sig := fn.Type().(*types.Signature)
	if r := sig.Recv(); r != nil {
		t := r.Type()
		if p, ok := t.(*types.Pointer); ok {
			t = p.Elem()
		}
		if n, ok := t.(*types.Named); ok {
			return fn.Pkg().Path() + "." + n.Obj().Name() + "." + fn.Name()
		}
		return fn.Pkg().Path() + ".?." + fn.Name()
	}
	return fn.Pkg().Path() + "." + fn.Name()
}

func (c *Ctx) call(x *ast.CallExpr, st *State) []Val {
	if c.callHook != nil {
		if vs, ok := c.callHook(c, x, st); ok {
			return vs
		}
	}
	// conversions
	if tv, ok := c.info.Types[x.Fun]; ok && tv.IsType() {
		return []Val{c.conversion(x, tv.Type, st)}
	}
	// builtins
	if id, ok := x.Fun.(*ast.Ident); ok {
		if _, isB := c.info.Uses[id].(*types.Builtin); isB {
			return c.builtin(id.Name, x, st)
		}
		// call of a closure value held in a local
		if fv, ok := st.env[c.objOf(id)].(FuncV); ok {
			return c.inlineLit(fv, x, st)
		}
	}
	if lit, ok := x.Fun.(*ast.FuncLit); ok {
		return c.inlineLit(FuncV{Lit: lit}, x, st)
	}
	fn := c.calleeFunc(x)
	key := funcKey(fn)
	if sel, ok := x.Fun.(*ast.SelectorExpr); ok && fn != nil && c.ifaceNil {
		if s, ok := c.info.Selections[sel]; ok && s.Kind() == types.MethodVal {
			if _, isIface := s.Recv().Underlying().(*types.Interface); isIface {
				if iv, ok := c.eval(sel.X, st).(IfaceV); ok {
					c.oblige(st, "safe.nil", c.pos(x.Pos()), "(not (= "+iv.Tag+" 0))", "method call on a non-nil interface value")
				}
			}
		}
	}
	if fn != nil {
		if m, ok := externModels[key]; ok {
			return m(c, x, st)
		}
		if spec := c.prog.contracts.Funcs[key]; spec != nil && !spec.Inline {
			return c.callBySpec(spec, fn, x, st)
		}
		if fd := c.prog.funcDecl(fn); fd != nil && fd.Body != nil && c.prog.inRepo(fn) {
			if spec := c.prog.contracts.Funcs[key]; spec != nil && spec.Inline {
				return c.inlineDecl(fd, fn, x, st)
			}
		}
	}
	return c.abstractCall(x, fn, st)
}

func (c *Ctx) conversion(x *ast.CallExpr, to types.Type, st *State) Val {
	arg := c.eval(x.Args[0], st)
	switch a := arg.(type) {
	case Scalar:
		if _, ok := c.sortOf(to); ok {
			from := c.info.TypeOf(x.Args[0])
			if isFloat(from) != isFloat(to) && from != nil {
				c.abstracted("int<->float conversion")
				s, _ := c.sortOf(to)
				return Scalar{c.fresh("fconv", s), s}
			}
			if isFloat(from) && isFloat(to) {
				fs, _ := c.sortOf(from)
				ts, _ := c.sortOf(to)
				if fs.W == ts.W {
					return Scalar{a.T, ts}
				}
				// float32<->float64: only the sign bit and zero-ness are tracked exactly
				fn := fmt.Sprintf("FConv%dto%d", fs.W, ts.W)
				c.declareFun(fn, "("+fs.smt()+") "+ts.smt())
				r := c.def("fconv", ts, "("+fn+" "+a.T+")")
				c.assume(fmt.Sprintf("(= ((_ extract %d %d) %s) ((_ extract %d %d) %s))", ts.W-1, ts.W-1, r, fs.W-1, fs.W-1, a.T))
				return Scalar{r, ts}
			}
			return c.convert(a, to)
		}
		if isString(to) {
			c.abstracted("string(rune)")
			return c.symbolic(st, "runestr", to)
		}
	case SliceV:
		if isString(to) && !a.IsStr {
			// string(b): fresh immutable copy
			arr := c.sliceArr(st, a)
			return SliceV{Arr: arr, Off: a.Off, Len: a.Len, Cap: a.Len, Nil: "false", Prov: "fresh", IsStr: true}
		}
		if isByteSlice(to) && a.IsStr {
			rg := c.newRegion(st, "conv")
			if a.Off == c.ilit(0) {
				st.heap[rg] = c.sliceArr(st, a)
			}
			return SliceV{Region: rg, Off: c.ilit(0), Len: a.Len, Cap: a.Len, Nil: "false", Prov: "fresh"}
		}
		return a
	case PtrV:
		if nt, ok := derefNamed(to); ok {
			return PtrV{Ref: a.Ref, Named: nt, Cell: a.Cell, CellT: a.CellT}
		}
		return a
	case ErrV:
		return c.zeroValue(to)
	}
	return c.coerce(arg, to)
}

func derefNamed(t types.Type) (*types.Named, bool) {
	if p, ok := t.Underlying().(*types.Pointer); ok {
		if n, ok := p.Elem().(*types.Named); ok {
			return n, true
		}
	}
	return nil, false
}

func (c *Ctx) builtin(name string, x *ast.CallExpr, st *State) []Val {
	is := c.idx()
	switch name {
	case "len", "cap":
		switch v := c.eval(x.Args[0], st).(type) {
		case SliceV:
			if name == "cap" {
				return []Val{Scalar{v.Cap, is}}
			}
			return []Val{Scalar{v.Len, is}}
		case ListV:
			if name == "cap" {
				cp := c.freshLen("cap")
				c.assume(c.leIdx(v.Len, cp))
				return []Val{Scalar{cp, is}}
			}
			return []Val{Scalar{v.Len, is}}
		case MapV:
			return []Val{Scalar{v.Len, is}}
		default:
			c.abstracted("len of unmodelled value")
			return []Val{Scalar{c.freshLen("olen"), is}}
		}
	case "append":
		return []Val{c.appendCall(x, st)}
	case "copy":
		d := c.eval(x.Args[0], st)
		s := c.eval(x.Args[1], st)
		dv, ok1 := d.(SliceV)
		sv, ok2 := s.(SliceV)
		if !ok1 || !ok2 {
			c.abstracted("copy on unmodelled slices")
			return []Val{Scalar{c.freshLen("copied"), is}}
		}
		return []Val{c.copyBytes(st, dv, sv, c.pos(x.Pos()))}
	case "make":
		return []Val{c.makeCall(x, st)}
	case "new":
		t := c.info.TypeOf(x.Args[0])
		if nt, ok := t.(*types.Named); ok {
			if _, isS := nt.Underlying().(*types.Struct); isS {
				p := c.allocStruct(st, nt)
				c.storeStruct(st, p, c.zeroValue(nt).(StructV))
				return []Val{p}
			}
		}
		c.abstracted("new of unmodelled type")
		return []Val{c.symbolic(st, "new", types.NewPointer(t))}
	case "delete":
		m, ok := c.eval(x.Args[0], st).(MapV)
		dk := c.eval(x.Args[1], st)
		if ok {
			nm := c.symbolicMap("deleted", types.NewMap(m.KeyT, m.ValT))
			c.assume(c.leIdx(nm.Len, m.Len))
			c.assume("(= " + nm.Nil + " " + m.Nil + ")")
			c.mapEvents = append(c.mapEvents, mapEvent{Old: m, New: nm, K: dk, Guard: st.guard, Pos: x.Pos(), Del: true})
			c.assignTo(x.Args[0], nm, st, false)
		}
		return nil
	case "panic":
		c.fail(x.Pos(), "panic must be a statement")
	case "min", "max":
		a := c.eval(x.Args[0], st).(Scalar)
		b := c.eval(x.Args[1], st).(Scalar)
		lt := c.binop(token.LSS, a, b, st, x.Pos()).(Scalar)
		if name == "max" {
			return []Val{Scalar{c.def("mx", a.S, "(ite "+lt.T+" "+b.T+" "+a.T+")"), a.S}}
		}
		return []Val{Scalar{c.def("mn", a.S, "(ite "+lt.T+" "+a.T+" "+b.T+")"), a.S}}
	}
	c.fail(x.Pos(), "unsupported builtin %s", name)
	return nil
}

func (c *Ctx) makeCall(x *ast.CallExpr, st *State) Val {
	t := c.info.TypeOf(x.Args[0])
	is := c.idx()
	switch u := t.Underlying().(type) {
	case *types.Map:
		if len(x.Args) > 1 {
			c.eval(x.Args[1], st)
		}
		m := c.symbolicMap("mk", u)
		c.assume("(= " + m.Len + " " + c.ilit(0) + ")")
		c.assume(not(m.Nil))
		c.mapMakes = append(c.mapMakes, m.Id)
		return m
	case *types.Slice:
		n := c.adaptIdx(c.eval(x.Args[1], st))
		cp := n
		if len(x.Args) == 3 {
			cp = c.adaptIdx(c.eval(x.Args[2], st))
			c.oblige(st, "safe.make", c.pos(x.Pos()), and(c.leIdx(c.ilit(0), n.T), c.leIdx(n.T, cp.T)), "make: 0 <= len <= cap")
		} else {
			c.oblige(st, "safe.make", c.pos(x.Pos()), c.leIdx(c.ilit(0), n.T), "make: len >= 0")
		}
		rec := AllocRec{Size: cp.T, Guard: st.guard, Pos: c.pos(x.Pos()), ElemBytes: elemBytes(u.Elem())}
		if c.allocHook != nil {
			rec.Tight = c.allocHook(st, cp.T, x.Pos())
		}
		c.allocs = append(c.allocs, rec)
		if isByte(u.Elem()) {
			rg := c.newRegion(st, "make")
			// make zeroes memory
			c.contentFact(fmt.Sprintf("(forall ((k %s)) (! (= (select %s k) #x00) :pattern ((select %s k))))", is.smt(), st.heap[rg], st.heap[rg]))
			return SliceV{Region: rg, Off: c.ilit(0), Len: n.T, Cap: cp.T, Nil: "false", Prov: "fresh"}
		}
		return ListV{Len: n.T, Elems: c.freshRaw("mk_elems", c.listArrSort(u.Elem())), Nil: "false", ElemT: u.Elem(), Prov: "fresh"}
	}
	c.abstracted("make of unmodelled type")
	return OpaqueV{T: t}
}

type AllocRec struct {
	Size, Guard, Pos string
	Tight            string // a stronger bound supplied by the family engine (record-local), "" if none
	ElemBytes        int
}

func elemBytes(t types.Type) int {
	if b, ok := t.Underlying().(*types.Basic); ok {
		switch b.Kind() {
		case types.Bool, types.Int8, types.Uint8:
			return 1
		case types.Int16, types.Uint16:
			return 2
		case types.Int32, types.Uint32, types.Float32:
			return 4
		case types.String:
			return 16
		}
	}
	if _, ok := t.Underlying().(*types.Slice); ok {
		return 24
	}
	return 8
}

func (c *Ctx) adaptIdx(v Val) Scalar {
	s := v.(Scalar)
	if s.S.K == "i2b" {
		return Scalar{s.T, c.idx()}
	}
	return s
}

func (c *Ctx) copyBytes(st *State, dv, sv SliceV, pos string) Val {
	is := c.idx()
	n := c.def("copied", is, fmt.Sprintf("(ite %s %s %s)", c.ltIdx(dv.Len, sv.Len), dv.Len, sv.Len))
	if dv.Region == "" {
		// destination is a bytes element/field of the message held by value: its new content is not tracked
		c.abstracted("copy into a bytes element of the message (content not tracked)")
		return Scalar{n, is}
	}
	old := c.sliceArr(st, dv)
	src := c.sliceArr(st, sv)
	na := c.freshRaw("arr_cp", c.byteArrSort())
	k := "k"
	inR := and(c.leIdx(dv.Off, k), c.ltIdx(k, c.addIdx(dv.Off, n)))
	srcIdx := c.addIdx(sv.Off, c.subIdx(k, dv.Off))
	c.contentFact(fmt.Sprintf("(forall ((k %s)) (! (= (select %s k) (ite %s (select %s %s) (select %s k))) :pattern ((select %s k))))", is.smt(), na, inR, src, srcIdx, old, na))
	st.heap[dv.Region] = na
	c.stores = append(c.stores, StoreRec{Key: dv.Region, Ref: dv.Off, Guard: st.guard, Pos: pos})
	return Scalar{n, is}
}

func (c *Ctx) appendCall(x *ast.CallExpr, st *State) Val {
	base := c.eval(x.Args[0], st)
	is := c.idx()
	switch b := base.(type) {
	case SliceV:
		// append(dst, src...) on bytes
		if x.Ellipsis.IsValid() && len(x.Args) == 2 {
			s, ok := c.eval(x.Args[1], st).(SliceV)
			if !ok {
				break
			}
			return c.appendBytes(st, b, s)
		}
		// append(dst, b0, b1, ...)
		rg := c.newRegion(st, "app")
		n := c.def("applen", is, c.addIdx(b.Len, c.ilit(int64(len(x.Args)-1))))
		c.appendFrame(st, rg, b, b.Len)
		for i, a := range x.Args[1:] {
			v := c.eval(a, st).(Scalar)
			st.heap[rg] = c.defRaw("A", c.byteArrSort(), fmt.Sprintf("(store %s %s %s)", st.heap[rg], c.addIdx(b.Len, c.ilit(int64(i))), v.T))
		}
		cp := c.freshLen("appcap")
		c.assume(c.leIdx(n, cp))
		return SliceV{Region: rg, Off: c.ilit(0), Len: n, Cap: cp, Nil: "false", Prov: appendProv(b.Prov)}
	case ListV:
		if x.Ellipsis.IsValid() {
			if s, ok := c.eval(x.Args[1], st).(ListV); ok {
				n := c.def("applen", is, c.addIdx(b.Len, s.Len))
				c.abstracted("append(list, list...) contents")
				return ListV{Len: n, Elems: c.freshRaw("app_elems", c.listArrSort(b.ElemT)), Nil: c.defRaw("appnil", "Bool", and(b.Nil, s.Nil)), ElemT: b.ElemT, Prov: b.Prov}
			}
			break
		}
		el := b.Elems
		c.listAppends = append(c.listAppends, listAppend{Target: types.ExprString(x.Args[0]), Guard: st.guard, Pos: x.Pos()})
		for i, a := range x.Args[1:] {
			v := c.eval(a, st)
			c.noteElemStore(st, types.ExprString(x.Args[0]), v, c.pos(x.Pos()), "list element")
			el = c.defRaw("E", c.listArrSort(b.ElemT), fmt.Sprintf("(store %s %s %s)", el, c.addIdx(b.Len, c.ilit(int64(i))), c.idOfValue(st, v)))
		}
		return ListV{Len: c.def("applen", is, c.addIdx(b.Len, c.ilit(int64(len(x.Args)-1)))), Elems: el, Nil: "false", ElemT: b.ElemT, Prov: b.Prov}
	}
	for _, a := range x.Args[1:] {
		c.eval(a, st)
	}
	c.abstracted("append on unmodelled slice")
	return c.symbolic(st, "app", c.info.TypeOf(x))
}

func appendProv(p string) string {
	// append may return the first argument's backing array (if capacity allows) or a fresh one; never the appended source
	if p == "input" || strings.HasPrefix(p, "param") || strings.HasPrefix(p, "join:") {
		return p
	}
	return "fresh"
}

// appendFrame: the new region agrees with b on [0, n)
func (c *Ctx) appendFrame(st *State, rg string, b SliceV, n string) {
	is := c.idx()
	old := c.sliceArr(st, b)
	na := st.heap[rg]
	c.contentFact(fmt.Sprintf("(forall ((k %s)) (! (=> %s (= (select %s k) (select %s %s))) :pattern ((select %s k))))", is.smt(), and(c.leIdx(c.ilit(0), "k"), c.ltIdx("k", n)), na, old, c.addIdx(b.Off, "k"), na))
}

func (c *Ctx) appendBytes(st *State, b, s SliceV) Val {
	is := c.idx()
	rg := c.newRegion(st, "app")
	n := c.def("applen", is, c.addIdx(b.Len, s.Len))
	c.appendFrame(st, rg, b, b.Len)
	src := c.sliceArr(st, s)
	na := st.heap[rg]
	rngK := and(c.leIdx(b.Len, "k"), c.ltIdx("k", n))
	c.contentFact(fmt.Sprintf("(forall ((k %s)) (! (=> %s (= (select %s k) (select %s %s))) :pattern ((select %s k))))", is.smt(), rngK, na, src, c.addIdx(s.Off, c.subIdx("k", b.Len)), na))
	cp := c.freshLen("appcap")
	c.assume(c.leIdx(n, cp))
	nl := c.defRaw("appnil", "Bool", and(b.Nil, "(= "+s.Len+" "+c.ilit(0)+")"))
	return SliceV{Region: rg, Off: c.ilit(0), Len: n, Cap: cp, Nil: nl, Prov: appendProv(b.Prov)}
}

// ---------- modular calls ----------

func (c *Ctx) bindArgs(fn *types.Func, x *ast.CallExpr, st *State) (map[string]Val, []Val) {
	binds := map[string]Val{}
	var args []Val
	sig := fn.Type().(*types.Signature)
	if sig.Recv() != nil {
		if sel, ok := x.Fun.(*ast.SelectorExpr); ok {
			rv := c.eval(sel.X, st)
			if sig.Recv().Name() != "" {
				binds[sig.Recv().Name()] = rv
			}
			binds["$recv"] = rv
		}
	}
	for i := 0; i < sig.Params().Len() && i < len(x.Args); i++ {
		v := c.coerce(c.eval(x.Args[i], st), sig.Params().At(i).Type())
		args = append(args, v)
		if n := sig.Params().At(i).Name(); n != "" && n != "_" {
			binds[n] = v
		}
	}
	return binds, args
}

func specSaysFresh(spec *FuncSpec, i, n int) bool {
	for _, e := range spec.Ensures {
		if strings.Contains(e.Text, fmt.Sprintf("fresh(result%d)", i)) || (n == 1 && strings.Contains(e.Text, "fresh(result)")) {
			return true
		}
	}
	return false
}

func (c *Ctx) callBySpec(spec *FuncSpec, fn *types.Func, x *ast.CallExpr, st *State) []Val {
	binds, _ := c.bindArgs(fn, x, st)
	pre := st.clone()
	env := &SpecEnv{c: c, st: st, entry: pre, binds: binds}
	for _, r := range spec.Requires {
		c.oblRequires(st, spec, r, env, x.Pos())
	}
	// termination of (mutual) recursion: the callee's measure is smaller than the caller's, lexicographically (E, rank)
	if c.spec != nil && c.spec.Decreases != nil && spec.Decreases != nil && c.entry != nil {
		callerEnv := &SpecEnv{c: c, st: c.entry, entry: c.entry, binds: c.entryBinds}
		m0 := c.specVal(c.spec.Decreases, callerEnv).(Scalar)
		m1 := c.specVal(spec.Decreases, env).(Scalar)
		lt := func(a, b string) string {
			if m0.S.K == "bv" {
				return "(bvslt " + a + " " + b + ")"
			}
			return "(< " + a + " " + b + ")"
		}
		le := func(a, b string) string {
			if m0.S.K == "bv" {
				return "(bvsle " + a + " " + b + ")"
			}
			return "(<= " + a + " " + b + ")"
		}
		rankLess := "false"
		if spec.Rank < c.spec.Rank {
			rankLess = "true"
		}
		goal := and(le(c.zero(m0.S), m0.T), or(lt(m1.T, m0.T), and("(= "+m1.T+" "+m0.T+")", rankLess)))
		c.safeN["decreases@call"]++
		c.addObl(Obl{Name: fmt.Sprintf("%s/decreases@call#%d[%s]", c.unit, c.safeN["decreases@call"], spec.Name), Kind: "decreases@call", Guard: st.guard, Goal: goal, Pos: c.pos(x.Pos()),
			Text: "the callee's termination measure (" + spec.Decreases.Text + ", rank " + fmt.Sprint(spec.Rank) + ") is lexicographically smaller than the caller's (" + c.spec.Decreases.Text + ", rank " + fmt.Sprint(c.spec.Rank) + "), which is non-negative"})
	}
	for _, pw := range spec.PanicsWhen {
		cond := c.specBool(pw, env)
		// the callee panics exactly when cond holds: a panic path of the caller
		ps := c.withGuard(st, cond)
		c.panics = append(c.panics, &PanicRec{St: ps, Pos: x.Pos(), Msg: "callee " + spec.Name + " panics when " + pw.Text})
		st.guard = c.defRaw("g", "Bool", and(st.guard, not(cond)))
	}
	// frame
	for _, a := range spec.Assigns {
		if v, ok := binds[a]; ok {
			if sv, isS := v.(SliceV); isS && sv.Region != "" {
				st.heap[sv.Region] = c.freshRaw("arr_call", c.byteArrSort())
				c.stores = append(c.stores, StoreRec{Key: sv.Region, Ref: sv.Off, Guard: st.guard, Pos: c.pos(x.Pos())})
			}
			if pv, isP := v.(PtrV); isP && pv.Struct() != nil {
				c.havocObject(st, pv)
			}
		}
	}
	sig := fn.Type().(*types.Signature)
	var results []Val
	pureKey := ""
	var pureRes []Val
	if spec.Pure {
		var pargs []Val
		if r, ok := binds["$recv"]; ok {
			pargs = append(pargs, r)
		}
		for i := 0; i < sig.Params().Len(); i++ {
			if v, ok := binds[sig.Params().At(i).Name()]; ok {
				pargs = append(pargs, v)
			}
		}
		pureRes = c.pureApply("spec:"+specKey(spec.Pkg, spec.Name), pargs, sig.Results(), st)
	}
	for i := 0; i < sig.Results().Len(); i++ {
		rv := sig.Results().At(i)
		var v Val
		if i < len(pureRes) {
			v = pureRes[i]
		} else {
			v = c.symbolic(st, "r_"+fn.Name(), rv.Type())
			// a result the contract declares fresh is a new allocation (a symbolic reference stands for an object that
			// existed before the call, and assuming fresh() of it would be contradictory)
			if nt, isPtr := derefNamed(rv.Type()); isPtr && specSaysFresh(spec, i, sig.Results().Len()) {
				if _, isStruct := nt.Underlying().(*types.Struct); isStruct {
					v = c.allocStruct(st, nt)
				}
			}
		}
		if sv, ok := v.(SliceV); ok {
			sv.Prov = "callee"
			v = sv
		}
		results = append(results, v)
		if rv.Name() != "" {
			binds[rv.Name()] = v
		}
	}
	for i, r := range results {
		binds[fmt.Sprintf("result%d", i)] = r
	}
	env = &SpecEnv{c: c, st: st, entry: pre, binds: binds, results: results, assume: true}
	for _, en := range spec.Ensures {
		if !c.content && hasQuant(en.Node) {
			continue // byte-content clauses are only assumed by units that state something about contents
		}
		c.assumeSpec(st.guard, en, env)
	}
	if spec.Extern && len(spec.Ensures) > 0 {
		// vacuity guard: an assumed (trusted) contract must not contradict what is already known — otherwise everything
		// after the call would be proved from false
		c.safeN["consistent@call"]++
		c.addObl(Obl{Name: fmt.Sprintf("%s/consistent@call#%d[%s]", c.unit, c.safeN["consistent@call"], spec.Name), Kind: "vacuity", Guard: st.guard, Goal: "true", Expect: "sat", Pos: c.pos(x.Pos()),
			Text: "the state after assuming the trusted contract of " + spec.Name + " is satisfiable"})
	}
	c.callResults = append(c.callResults, callResult{Callee: spec.Name, Guard: st.guard, Vals: results})
	c.usedSpecs[specKey(spec.Pkg, spec.Name)] = true
	if pureKey != "" {
		c.specEnv[pureKey] = TupleV(results)
	}
	return results
}

func (c *Ctx) oblRequires(st *State, spec *FuncSpec, r *Clause, env *SpecEnv, pos token.Pos) {
	goal := c.specBool(r, env)
	c.safeN["requires@call"]++
	name := fmt.Sprintf("%s/requires@call#%d[%s.%s]", c.unit, c.safeN["requires@call"], spec.Name, r.Label)
	c.addObl(Obl{Name: name, Kind: "requires@call", Guard: st.guard, Goal: goal, Pos: c.pos(pos), Text: spec.Name + " requires " + r.Text})
	st.guard = c.defRaw("g", "Bool", and(st.guard, goal))
}

func (c *Ctx) havocObject(st *State, p PtrV) {
	prefix := "fld:" + p.TypeName() + "."
	for _, k := range sortedKeys(st.heap) {
		if strings.HasPrefix(k, prefix) {
			// only this object changes: new array equals old except at p.Ref
			old := st.heap[k]
			na := c.freshRaw("H_call", c.heapSorts[k])
			es := strings.TrimSuffix(strings.TrimPrefix(c.heapSorts[k], "(Array Int "), ")")
			v := c.freshRaw("hv", es)
			c.assume("(= " + na + " (store " + old + " " + p.Ref + " " + v + "))")
			st.heap[k] = na
		}
	}
}

// ---------- inlining (helpers without their own contract, closures) ----------

func (c *Ctx) inlineDecl(fd *ast.FuncDecl, fn *types.Func, x *ast.CallExpr, st *State) []Val {
	if c.depth > 6 {
		c.fail(x.Pos(), "inline depth exceeded")
	}
	pkg := c.prog.pkgOf(fn)
	saveInfo, savePkg, saveFset := c.info, c.pkg, c.fset
	// arguments are evaluated in the caller's package context
	var argv []Val
	for _, a := range x.Args {
		argv = append(argv, c.eval(a, st))
	}
	var recv Val
	if fd.Recv != nil {
		if sel, ok := x.Fun.(*ast.SelectorExpr); ok {
			recv = c.eval(sel.X, st)
		}
	}
	sub := st.clone() // after argument evaluation: boxing and call effects in arguments are visible to the callee
	if pkg != nil {
		c.info, c.pkg, c.fset = pkg.TypesInfo, pkg, pkg.Fset
	}
	defer func() { c.info, c.pkg, c.fset = saveInfo, savePkg, saveFset }()
	if fd.Recv != nil && len(fd.Recv.List) > 0 && len(fd.Recv.List[0].Names) > 0 {
		sub.env[c.info.Defs[fd.Recv.List[0].Names[0]]] = recv
	}
	i := 0
	for _, fl := range fd.Type.Params.List {
		for _, nm := range fl.Names {
			if i < len(argv) {
				sub.env[c.info.Defs[nm]] = c.coerce(argv[i], c.info.Defs[nm].Type())
			}
			i++
		}
	}
	return c.runInlined(fd.Type, fd.Body, sub, st)
}

func (c *Ctx) inlineLit(fv FuncV, x *ast.CallExpr, st *State) []Val {
	if fv.Lit == nil {
		return c.abstractCall(x, nil, st)
	}
	if c.depth > 6 {
		c.fail(x.Pos(), "inline depth exceeded")
	}
	var argv []Val
	for _, a := range x.Args {
		argv = append(argv, c.eval(a, st))
	}
	sub := st.clone()
	i := 0
	for _, fl := range fv.Lit.Type.Params.List {
		for _, nm := range fl.Names {
			sub.env[c.info.Defs[nm]] = c.coerce(argv[i], c.info.Defs[nm].Type())
			i++
		}
	}
	return c.runInlined(fv.Lit.Type, fv.Lit.Body, sub, st)
}

func (c *Ctx) runInlined(ft *ast.FuncType, body *ast.BlockStmt, sub, st *State) []Val {
	var resObjs []types.Object
	var resTypes []types.Type
	if ft.Results != nil {
		for _, fl := range ft.Results.List {
			n := len(fl.Names)
			if n == 0 {
				n = 1
			}
			for i := 0; i < n; i++ {
				resTypes = append(resTypes, c.info.TypeOf(fl.Type))
			}
			for _, nm := range fl.Names {
				o := c.info.Defs[nm]
				sub.env[o] = c.zeroValue(o.Type())
				resObjs = append(resObjs, o)
			}
		}
	}
	savedRets, savedRes, savedLoopN, savedSpec, savedRT := c.rets, c.curResults, c.loopN, c.spec, c.resTypes
	c.rets, c.curResults, c.resTypes = nil, resObjs, resTypes
	c.depth++
	fl := c.execBlock(body.List, sub)
	c.depth--
	rets := c.rets
	c.rets, c.curResults, c.spec, c.resTypes = savedRets, savedRes, savedSpec, savedRT
	_ = savedLoopN
	if end := c.one(fl); end != nil {
		r := &RetState{St: end}
		for _, o := range resObjs {
			r.Vals = append(r.Vals, end.env[o])
		}
		rets = append(rets, r)
	}
	var mg *State
	var vals []Val
	for _, r := range rets {
		if mg == nil {
			mg = r.St
			vals = append([]Val{}, r.Vals...)
			continue
		}
		for k := range vals {
			if k < len(r.Vals) {
				vals[k] = c.mergeVal(mg.guard, vals[k], r.Vals[k])
			}
		}
		mg = c.merge(mg, r.St)
	}
	if mg == nil {
		st.guard = "false"
		return nil
	}
	st.guard = mg.guard
	st.heap = mg.heap
	// captured variables assigned inside a closure are visible to the caller (capture by reference)
	for o := range st.env {
		if v, ok := mg.env[o]; ok {
			st.env[o] = v
		}
	}
	return vals
}

// ---------- abstraction of unmodelled calls ----------

var purePkgs = map[string]bool{"fmt": true, "errors": true, "strings": true, "math": true, "math/bits": true, "strconv": true, "unicode/utf8": true, "encoding/binary": true, "sort": false,
	"google.golang.org/protobuf/reflect/protoreflect": true, "google.golang.org/protobuf/runtime/protoimpl": true}

func (c *Ctx) abstractCall(x *ast.CallExpr, fn *types.Func, st *State) []Val {
	name := types.ExprString(x.Fun)
	if fn != nil {
		name = funcKey(fn)
	}
	var args []Val
	if sel, ok := x.Fun.(*ast.SelectorExpr); ok {
		if _, isPkg := c.info.Uses[identOf(sel.X)].(*types.PkgName); !isPkg || identOf(sel.X) == nil {
			if s, ok := c.info.Selections[sel]; ok && s.Kind() == types.MethodVal {
				args = append(args, c.eval(sel.X, st))
			}
		}
	}
	for _, a := range x.Args {
		args = append(args, c.eval(a, st))
	}
	if fn == nil {
		// a call through a function value kept in a package-level variable: code that cannot be seen from here, so for
		// the write frame it may store anywhere (a memo captured by a closure, for instance)
		if id, ok := ast.Unparen(x.Fun).(*ast.Ident); ok {
			if v, ok := c.info.Uses[id].(*types.Var); ok && v.Pkg() != nil && v.Parent() == v.Pkg().Scope() {
				c.stores = append(c.stores, StoreRec{Key: "fld:*(call through the package-level function value " + id.Name + ")", Ref: "unknown", Guard: st.guard, Pos: c.pos(x.Pos())})
			}
		}
	}
	pure := fn != nil && fn.Pkg() != nil && purePkgs[fn.Pkg().Path()]
	if pure {
		// pure library calls are (uninterpreted) functions of receiver and arguments: congruence gives the same value for the same arguments
		c.abstracted("pure call " + name)
		return c.pureApply(name, args, c.info.TypeOf(x), st)
	}
	if !pure {
		for _, a := range args {
			switch v := a.(type) {
			case PtrV:
				if v.Struct() != nil {
					c.havocObject(st, v)
					if fn != nil && c.prog.inRepo(fn) {
						// an unverified function of this repository receives the object: for the write frame this is a
						// possible store to any of its fields
						c.stores = append(c.stores, StoreRec{Key: "fld:" + v.TypeName() + ".*(passed to " + name + ")", Ref: v.Ref, Guard: st.guard, Pos: c.pos(x.Pos())})
					}
				}
			case SliceV:
				if v.Region != "" {
					st.heap[v.Region] = c.freshRaw("arr_abs", c.byteArrSort())
				}
			}
		}
	}
	c.abstracted("call " + name)
	res := c.abstractResults(x, st)
	// an unverified function that receives bytes of the input may hand them back (a zero-copy view): its slice and
	// string results carry the input's provenance
	tainted := false
	for _, a := range args {
		if sv, ok := a.(SliceV); ok && (sv.Prov == "input" || sv.Prov == "mixed" || strings.HasPrefix(sv.Prov, "join:")) {
			tainted = true
		}
	}
	if tainted {
		for i, r := range res {
			switch sv := r.(type) {
			case SliceV:
				sv.Prov = "input"
				res[i] = sv
			case ListV:
				sv.Prov = "input" // e.g. a []bool that reinterprets the input bytes
				res[i] = sv
			}
		}
	}
	return res
}

func (c *Ctx) abstractResults(x *ast.CallExpr, st *State) []Val {
	tv := c.info.TypeOf(x)
	var out []Val
	switch t := tv.(type) {
	case *types.Tuple:
		for i := 0; i < t.Len(); i++ {
			out = append(out, c.symbolic(st, "r", t.At(i).Type()))
		}
	case nil:
	default:
		if b, ok := tv.(*types.Basic); ok && b.Kind() == types.Invalid {
			return nil
		}
		if tv.String() == "()" {
			return nil
		}
		out = append(out, c.symbolic(st, "r", tv))
	}
	return out
}

// ---------- extern models (trusted, listed in evidence) ----------

type externModel func(c *Ctx, x *ast.CallExpr, st *State) []Val

var externModels map[string]externModel

func freshErr(c *Ctx, st *State) Val {
	e := c.freshRaw("err", "Int")
	c.assume("(> " + e + " 1000)")
	return ErrV{e}
}

func init() {
	externModels = map[string]externModel{
		"math.Float64bits":     func(c *Ctx, x *ast.CallExpr, st *State) []Val { return []Val{retag(c.eval(x.Args[0], st), 64)} },
		"math.Float32bits":     func(c *Ctx, x *ast.CallExpr, st *State) []Val { return []Val{retag(c.eval(x.Args[0], st), 32)} },
		"math.Float64frombits": func(c *Ctx, x *ast.CallExpr, st *State) []Val { return []Val{retag(c.eval(x.Args[0], st), 64)} },
		"math.Float32frombits": func(c *Ctx, x *ast.CallExpr, st *State) []Val { return []Val{retag(c.eval(x.Args[0], st), 32)} },
		"math.Signbit": func(c *Ctx, x *ast.CallExpr, st *State) []Val {
			a := c.eval(x.Args[0], st).(Scalar)
			return []Val{Scalar{c.def("sign", boolSort, fmt.Sprintf("(= ((_ extract %d %d) %s) #b1)", a.S.W-1, a.S.W-1, a.T)), boolSort}}
		},
		"math/bits.Len64": func(c *Ctx, x *ast.CallExpr, st *State) []Val {
			a := c.eval(x.Args[0], st).(Scalar)
			if !c.isBV() {
				c.fail(x.Pos(), "bits.Len64 needs mode bv")
			}
			return []Val{Scalar{c.def("len64", c.idx(), "(len64 "+a.T+")"), c.idx()}}
		},
		"fmt.Errorf": func(c *Ctx, x *ast.CallExpr, st *State) []Val {
			for _, a := range x.Args {
				c.evalForEffects(a, st)
			}
			return []Val{freshErr(c, st)}
		},
		"errors.New": func(c *Ctx, x *ast.CallExpr, st *State) []Val { return []Val{freshErr(c, st)} },
		"fmt.Sprint": func(c *Ctx, x *ast.CallExpr, st *State) []Val {
			for _, a := range x.Args {
				c.evalForEffects(a, st)
			}
			return []Val{c.symbolic(st, "sprint", types.Typ[types.String])}
		},
		"fmt.Sprintf": func(c *Ctx, x *ast.CallExpr, st *State) []Val {
			for _, a := range x.Args {
				c.evalForEffects(a, st)
			}
			return []Val{c.symbolic(st, "sprintf", types.Typ[types.String])}
		},
	}
	externModels["pgregory.net/rapid.Generator.Draw"] = func(c *Ctx, x *ast.CallExpr, st *State) []Val {
		// trusted contract of rapid: a value drawn from XRange(lo, hi) lies in [lo, hi]; other generators are unconstrained
		t := c.info.TypeOf(x)
		v := c.symbolic(st, "draw", t)
		sel, _ := x.Fun.(*ast.SelectorExpr)
		if sel != nil {
			if gen, ok := sel.X.(*ast.CallExpr); ok {
				if gs, ok := gen.Fun.(*ast.SelectorExpr); ok && strings.HasSuffix(gs.Sel.Name, "Range") && len(gen.Args) == 2 {
					lo, ok1 := c.eval(gen.Args[0], st).(Scalar)
					hi, ok2 := c.eval(gen.Args[1], st).(Scalar)
					if sv, ok := v.(Scalar); ok && ok1 && ok2 {
						le := func(a, b Scalar) string { return c.binop(token.LEQ, a, b, st, x.Pos()).(Scalar).T }
						lo, hi = c.convertSort(lo, sv.S), c.convertSort(hi, sv.S)
						save := c.noDef
						c.noDef = true // no auxiliary definitions: the assumption must mention the drawn value directly (slicing)
						fact := implies(le(lo, hi), and(le(lo, sv), le(sv, hi)))
						c.noDef = save
						c.assume(fact)
					}
				}
			}
		}
		// SliceOfN(gen, lo, hi).Draw: the drawn slice has between lo and hi elements (hi < 0: no upper bound)
		if sel != nil {
			if gen, ok := sel.X.(*ast.CallExpr); ok {
				if gs, ok := gen.Fun.(*ast.SelectorExpr); ok && gs.Sel.Name == "SliceOfN" && len(gen.Args) == 3 {
					lo, ok1 := c.eval(gen.Args[1], st).(Scalar)
					hi, ok2 := c.eval(gen.Args[2], st).(Scalar)
					ln := ""
					switch lv := v.(type) {
					case ListV:
						ln = lv.Len
					case SliceV:
						ln = lv.Len
					}
					if ok1 && ok2 && ln != "" {
						l := Scalar{ln, c.idx()}
						le := func(a, b Scalar) string { return c.binop(token.LEQ, a, b, st, x.Pos()).(Scalar).T }
						lo, hi = c.convertSort(lo, l.S), c.convertSort(hi, l.S)
						save := c.noDef
						c.noDef = true
						fact := and(implies(le(Scalar{c.zero(l.S), l.S}, lo), le(lo, l)), implies(and(le(Scalar{c.zero(l.S), l.S}, hi), le(lo, hi)), le(l, hi)))
						c.noDef = save
						c.assume(fact)
					}
				}
			}
		}
		for _, a := range x.Args {
			c.evalForEffects(a, st)
		}
		return []Val{v}
	}
	externModels["gotest.tools/v3/assert.Assert"] = func(c *Ctx, x *ast.CallExpr, st *State) []Val {
		// a failed assertion aborts the test run: execution continues only when the condition holds
		if len(x.Args) >= 2 {
			if cond, ok := c.eval(x.Args[1], st).(Scalar); ok && cond.S.K == "bool" {
				st.guard = c.defRaw("g", "Bool", and(st.guard, cond.T))
			}
		}
		return nil
	}
	externModels["gotest.tools/v3/assert.NilError"] = func(c *Ctx, x *ast.CallExpr, st *State) []Val {
		if len(x.Args) >= 2 {
			if e, ok := c.eval(x.Args[1], st).(ErrV); ok {
				st.guard = c.defRaw("g", "Bool", and(st.guard, "(= "+e.T+" 0)"))
			}
		}
		return nil
	}
	externModels["pgregory.net/rapid.T.Fatalf"] = func(c *Ctx, x *ast.CallExpr, st *State) []Val {
		st.guard = "false" // aborts the test
		return nil
	}
	le := func(w int, put bool) externModel {
		return func(c *Ctx, x *ast.CallExpr, st *State) []Val {
			d, ok := c.eval(x.Args[0], st).(SliceV)
			if !ok {
				c.fail(x.Pos(), "binary.LittleEndian on unmodelled slice")
			}
			n := int64(w / 8)
			c.safeN["requires@call"]++
			name := fmt.Sprintf("%s/requires@call#%d[binary.LittleEndian:len>=%d]", c.unit, c.safeN["requires@call"], n)
			goal := c.leIdx(c.ilit(n), d.Len)
			c.addObl(Obl{Name: name, Kind: "requires@call", Guard: st.guard, Goal: goal, Pos: c.pos(x.Pos()), Text: fmt.Sprintf("binary.LittleEndian needs len >= %d", n)})
			st.guard = c.defRaw("g", "Bool", and(st.guard, goal))
			s := Sort{K: "bv", W: w}
			if !put {
				arr := c.sliceArr(st, d)
				t := ""
				for i := int64(0); i < n; i++ {
					b := fmt.Sprintf("(select %s %s)", arr, c.addIdx(d.Off, c.ilit(i)))
					if t == "" {
						t = b
					} else {
						t = "(concat " + b + " " + t + ")"
					}
				}
				return []Val{Scalar{c.def("le", s, t), s}}
			}
			v := c.eval(x.Args[1], st).(Scalar)
			if d.Region == "" {
				c.fail(x.Pos(), "PutUint on immutable bytes")
			}
			arr := c.sliceArr(st, d)
			for i := int64(0); i < n; i++ {
				arr = fmt.Sprintf("(store %s %s ((_ extract %d %d) %s))", arr, c.addIdx(d.Off, c.ilit(i)), 8*i+7, 8*i, v.T)
			}
			st.heap[d.Region] = c.defRaw("A", c.byteArrSort(), arr)
			c.stores = append(c.stores, StoreRec{Key: d.Region, Ref: d.Off, Guard: st.guard, Pos: c.pos(x.Pos())})
			return nil
		}
	}
	externModels["encoding/binary.littleEndian.Uint32"] = le(32, false)
	externModels["encoding/binary.littleEndian.Uint64"] = le(64, false)
	externModels["encoding/binary.littleEndian.PutUint32"] = le(32, true)
	externModels["encoding/binary.littleEndian.PutUint64"] = le(64, true)
}

func retag(v Val, w int) Val {
	s := v.(Scalar)
	return Scalar{s.T, Sort{K: "bv", W: w}}
}

// contentFact: quantified facts about byte contents (append/copy/make). They are only emitted for units that state
// something about contents; a quantifier in a bit-vector query takes the solver off its fast path.
func (c *Ctx) contentFact(t string) {
	if c.content {
		c.assume(t)
	}
}

// assumeSpec assumes a contract clause under a guard, evaluated without auxiliary definitions so that the assumption
// mentions the symbols it constrains directly (this is what slicing keys on).
func (c *Ctx) assumeSpec(guard string, cl *Clause, env *SpecEnv) {
	save := c.noDef
	c.noDef = true
	t := c.specBool(cl, env)
	c.noDef = save
	c.assume(implies(guard, t))
}

func hasQuant(n SpecNode) bool {
	switch x := n.(type) {
	case *QuantNode:
		return true
	case *ImplNode:
		return hasQuant(x.A) || hasQuant(x.B)
	case *IffNode:
		return hasQuant(x.A) || hasQuant(x.B)
	case *AndNode:
		for _, k := range x.L {
			if hasQuant(k) {
				return true
			}
		}
	}
	return false
}

// valKey: a canonical key of a value for functional (pure) call caching
func valKey(c *Ctx, v Val) string {
	switch x := v.(type) {
	case Scalar:
		return x.T
	case PtrV:
		return "p" + x.Ref + "@" + x.Cell
	case IfaceV:
		return "i" + x.Tag + ":" + x.Ref
	case ErrV:
		return "e" + x.T
	case SliceV:
		if id, ok := c.strID(x); ok {
			return fmt.Sprintf("str%d", id)
		}
		return "s" + x.Arr + "/" + x.Region + "/" + x.Off + "/" + x.Len
	case StructV:
		k := "{"
		for _, f := range sortedKeys(x.F) {
			k += f + "=" + valKey(c, x.F[f]) + ";"
		}
		return k + "}"
	case OpaqueV:
		return "opaque"
	}
	return fmt.Sprintf("%T", v)
}

// pureApply: the results of a pure call as applications of uninterpreted functions of the arguments' SMT terms
func (c *Ctx) pureApply(name string, args []Val, t types.Type, st *State) []Val {
	var terms, sorts []string
	ok := true
	for _, a := range args {
		switch v := a.(type) {
		case Scalar:
			switch v.S.K {
			case "i2b":
				terms, sorts = append(terms, v.T), append(sorts, "Int")
			case "str":
				terms, sorts = append(terms, v.T), append(sorts, "Int")
			default:
				terms, sorts = append(terms, v.T), append(sorts, v.S.smt())
			}
		case PtrV:
			terms, sorts = append(terms, v.Ref), append(sorts, "Int")
		case IfaceV:
			terms, sorts = append(terms, v.Tag, v.Ref), append(sorts, "Int", "Int")
		case ErrV:
			terms, sorts = append(terms, v.T), append(sorts, "Int")
		case SliceV:
			if id, isC := c.strID(v); isC {
				terms, sorts = append(terms, fmt.Sprint(id)), append(sorts, "Int")
			} else if v.Id != "" {
				terms, sorts = append(terms, v.Id), append(sorts, "Int")
			} else {
				terms, sorts = append(terms, c.sliceArr(st, v), v.Off, v.Len), append(sorts, c.byteArrSort(), c.idx().smt(), c.idx().smt())
			}
		case StructV:
			for _, f := range sortedKeys(v.F) {
				if sv, isS := v.F[f].(Scalar); isS && sv.S.K != "i2b" {
					terms, sorts = append(terms, sv.T), append(sorts, sv.S.smt())
				}
			}
		case OpaqueV:
		default:
			ok = false
		}
	}
	var rtypes []types.Type
	switch tt := t.(type) {
	case *types.Tuple:
		for i := 0; i < tt.Len(); i++ {
			rtypes = append(rtypes, tt.At(i).Type())
		}
	case nil:
	default:
		if tt.String() != "()" {
			rtypes = append(rtypes, tt)
		}
	}
	base := "P_" + sanitize(name)
	app := func(suffix, rs string) string {
		fn := fmt.Sprintf("%s_%s_%d", base, suffix, len(terms))
		c.declareFun(fn, "("+strings.Join(sorts, " ")+") "+rs)
		if len(terms) == 0 {
			return fn
		}
		return "(" + fn + " " + strings.Join(terms, " ") + ")"
	}
	var out []Val
	for i, rt := range rtypes {
		sfx := fmt.Sprint(i)
		if !ok {
			out = append(out, c.symbolic(st, "r", rt))
			continue
		}
		if s, isS := c.sortOf(rt); isS {
			v := c.def("pr", s, app(sfx, s.smt()))
			c.assumeRange(v, s)
			out = append(out, Scalar{v, s})
			continue
		}
		switch u := rt.Underlying().(type) {
		case *types.Pointer:
			nt, _ := u.Elem().(*types.Named)
			r := c.defRaw("pr", "Int", app(sfx, "Int"))
			c.assume("(>= " + r + " 0)")
			out = append(out, PtrV{Ref: r, Named: nt})
		case *types.Interface:
			if types.Implements(rt, errorIface) && u.NumMethods() == 1 {
				e := c.defRaw("pe", "Int", app(sfx, "Int"))
				c.assume("(>= " + e + " 0)")
				out = append(out, ErrV{e})
				continue
			}
			tag := c.defRaw("ptag", "Int", app(sfx+"tag", "Int"))
			ref := c.defRaw("pref", "Int", app(sfx+"ref", "Int"))
			c.assume(and("(>= "+tag+" 0)", and("(>= "+ref+" 0)", implies("(= "+tag+" 0)", "(= "+ref+" 0)"))))
			out = append(out, IfaceV{Tag: tag, Ref: ref, T: rt})
		case *types.Basic:
			if isString(rt) {
				ln := c.defRaw("plen", c.idx().smt(), app(sfx+"len", c.idx().smt()))
				c.assume(c.lenBounds(ln))
				arr := c.defRaw("parr", c.byteArrSort(), app(sfx+"arr", c.byteArrSort()))
				out = append(out, SliceV{Arr: arr, Off: c.ilit(0), Len: ln, Cap: ln, Nil: "false", Prov: "callee", IsStr: true})
				continue
			}
			out = append(out, c.symbolic(st, "r", rt))
		case *types.Slice:
			if isByte(u.Elem()) {
				ln := c.defRaw("plen", c.idx().smt(), app(sfx+"len", c.idx().smt()))
				c.assume(c.lenBounds(ln))
				arr := c.defRaw("parr", c.byteArrSort(), app(sfx+"arr", c.byteArrSort()))
				nl := c.defRaw("pnil", "Bool", app(sfx+"nil", "Bool"))
				out = append(out, SliceV{Arr: arr, Off: c.ilit(0), Len: ln, Cap: ln, Nil: nl, Prov: "callee"})
				continue
			}
			out = append(out, c.symbolic(st, "r", rt))
		default:
			out = append(out, c.symbolic(st, "r", rt))
		}
	}
	return out
}
