package main

// Replay: concretise a solver model into Go values and run a property-level oracle against the real code with
// `go test -overlay` (nothing is written into /repo).

import (
	"encoding/base64"
	"encoding/json"
	"fmt"
	"math/big"
	"os"
	"os/exec"
	"path/filepath"
	"strings"

	"google.golang.org/protobuf/proto"
	"google.golang.org/protobuf/types/pluginpb"
)

type concVal struct {
	Kind   string            `json:"kind"` // int | bool | bytes | ptr
	Int    string            `json:"int,omitempty"`
	Bool   bool              `json:"bool,omitempty"`
	Bytes  []int             `json:"bytes,omitempty"`
	Len    string            `json:"len,omitempty"`
	Nil    bool              `json:"nil,omitempty"`
	Fields map[string]string `json:"fields,omitempty"`
}

func signedOf(v *big.Int, w int, signed bool) *big.Int {
	if !signed || w == 0 {
		return v
	}
	h := new(big.Int).Lsh(big.NewInt(1), uint(w-1))
	if v.Cmp(h) >= 0 {
		return new(big.Int).Sub(v, new(big.Int).Lsh(big.NewInt(1), uint(w)))
	}
	return v
}

// concretise the entry values of a function unit's parameters in a model of the failing obligation
func concretise(c *Ctx, o *Obl, binds map[string]Val) (map[string]concVal, bool) {
	entry := c.entry
	// model minimisation: prefer short slices
	var lens []string
	for _, v := range binds {
		if sv, ok := v.(SliceV); ok {
			lens = append(lens, sv.Len)
		}
	}
	bound := func(n int64) string {
		r := "true"
		for _, l := range lens {
			r = and(r, c.leIdx(l, c.ilit(n)))
		}
		return r
	}
	extras := []string{"true"}
	if len(lens) > 0 {
		extras = []string{bound(16), bound(64), bound(4096), "true"}
	}
	for _, extra := range extras {
		if extra == "true" {
			extra = ""
		}
		// phase 1: scalars, refs, lengths
		var terms []string
		type want struct {
			name, field, term string
			sort              Sort
		}
		var ws []want
		for _, name := range sortedKeys(binds) {
			switch v := binds[name].(type) {
			case Scalar:
				ws = append(ws, want{name, "", v.T, v.S})
			case PtrV:
				ws = append(ws, want{name, "$ref", v.Ref, Sort{K: "int"}})
				if s := v.Struct(); s != nil {
					for i := 0; i < s.NumFields(); i++ {
						f := s.Field(i)
						if fs, ok := c.sortOf(f.Type()); ok {
							if h, ok := entry.heap[fieldBase(v, f.Name())]; ok {
								ws = append(ws, want{name, f.Name(), "(select " + h + " " + v.Ref + ")", fs})
							}
						}
					}
				}
			case SliceV:
				ws = append(ws, want{name, "$len", v.Len, c.idx()})
			}
		}
		for _, w := range ws {
			terms = append(terms, w.term)
		}
		vals, ok := evalTerms(o, extra, terms, 20)
		if !ok {
			continue
		}
		out := map[string]concVal{}
		for _, w := range ws {
			raw, has := vals[w.term]
			if !has {
				continue
			}
			cv := out[w.name]
			switch {
			case w.sort.K == "bool":
				cv.Kind, cv.Bool = "bool", raw == "true"
			case w.field == "$ref":
				b, _ := smtValToBig(raw)
				cv.Kind = "ptr"
				cv.Nil = b != nil && b.Sign() == 0
				if cv.Fields == nil {
					cv.Fields = map[string]string{}
				}
			case w.field == "$len":
				b, _ := smtValToBig(raw)
				cv.Kind = "bytes"
				if b != nil {
					cv.Len = signedOf(b, 64, c.isBV()).String()
				}
			case w.field != "":
				b, _ := smtValToBig(raw)
				if b != nil {
					if cv.Fields == nil {
						cv.Fields = map[string]string{}
					}
					cv.Fields[w.field] = signedOf(b, w.sort.W, w.sort.Sg && w.sort.K == "bv").String()
				}
			default:
				b, _ := smtValToBig(raw)
				cv.Kind = "int"
				if b != nil {
					cv.Int = signedOf(b, w.sort.W, w.sort.Sg && w.sort.K == "bv").String()
				}
			}
			out[w.name] = cv
		}
		// phase 2: slice contents (entry state), pinned to the lengths just read
		pin := extra
		var bterms []string
		type bw struct {
			name string
			i    int
		}
		var bws []bw
		tooBig := false
		for _, name := range sortedKeys(binds) {
			sv, ok := binds[name].(SliceV)
			if !ok {
				continue
			}
			n, _ := new(big.Int).SetString(out[name].Len, 10)
			if n == nil || n.Sign() < 0 || n.Cmp(big.NewInt(1<<16)) > 0 {
				tooBig = true
				continue
			}
			pin = and(nonEmpty(pin), "(= "+sv.Len+" "+c.ilit(n.Int64())+")")
			arr := c.sliceArr(entry, sv)
			for i := 0; i < int(n.Int64()); i++ {
				bterms = append(bterms, "(select "+arr+" "+c.addIdx(sv.Off, c.ilit(int64(i)))+")")
				bws = append(bws, bw{name, i})
			}
		}
		if tooBig {
			continue
		}
		if len(bterms) > 0 {
			bvals, ok := evalTerms(o, pin, bterms, 30)
			if !ok {
				continue
			}
			for k, w := range bws {
				cv := out[w.name]
				b, _ := smtValToBig(bvals[bterms[k]])
				x := 0
				if b != nil {
					x = int(b.Int64())
				}
				cv.Bytes = append(cv.Bytes, x)
				out[w.name] = cv
			}
		}
		return out, true
	}
	return nil, false
}

func nonEmpty(s string) string {
	if s == "" {
		return "true"
	}
	return s
}

func goBytes(b []int) string {
	var sb strings.Builder
	sb.WriteString("[]byte{")
	for i, x := range b {
		if i > 0 {
			sb.WriteString(", ")
		}
		fmt.Fprintf(&sb, "0x%02x", x)
	}
	sb.WriteString("}")
	return sb.String()
}

// oracles: per function, a Go test body that checks the PROPERTY (not the contract) on concrete inputs.
// It must print "GOVC-REPLAY: VIOLATED <why>" and fail iff the property is violated on these inputs.
type oracle struct {
	pkgDir  string
	pkgName string
	imports string
	body    func(in map[string]concVal) string
}

func fld(in map[string]concVal, p, f string) string {
	if v, ok := in[p].Fields[f]; ok {
		return v
	}
	return "0"
}

var oracles = map[string]oracle{
	"timepb.Add": {"support/timepb", "timepb", `"math/big"; durpb "google.golang.org/protobuf/types/known/durationpb"; tspb "google.golang.org/protobuf/types/known/timestamppb"`, func(in map[string]concVal) string {
		return fmt.Sprintf(`
	ts := &tspb.Timestamp{Seconds: %s, Nanos: %s}
	d := &durpb.Duration{Seconds: %s, Nanos: %s}
	tot := func(s int64, n int32) *big.Int { r := big.NewInt(0).Mul(big.NewInt(s), big.NewInt(1000000000)); return r.Add(r, big.NewInt(int64(n))) }
	want := big.NewInt(0).Add(tot(ts.Seconds, ts.Nanos), tot(d.Seconds, d.Nanos))
	var res *tspb.Timestamp
	panicked := func() (p bool) { defer func() { if recover() != nil { p = true } }(); res = Add(ts, d); return false }()
	validIn := ts.CheckValid() == nil && d.CheckValid() == nil
	if panicked {
		// allowed only when the seconds sum does not fit in 64 bits
		sec := big.NewInt(0).Div(want, big.NewInt(1000000000))
		if sec.IsInt64() { violated(t, "Add panicked although t+d is representable: t=%%v d=%%v", ts, d) }
		return
	}
	if res == ts { violated(t, "Add returned its argument, not a fresh value") }
	if res.Nanos < 0 || res.Nanos >= 1000000000 { violated(t, "Add(%%v, %%v) = (%%d, %%d): nanos not normalised (valid inputs: %%v)", ts, d, res.Seconds, res.Nanos, validIn) }
	if tot(res.Seconds, res.Nanos).Cmp(want) != 0 { violated(t, "Add(%%v, %%v) = (%%d, %%d) is not the instant t+d", ts, d, res.Seconds, res.Nanos) }
`, fld(in, "t", "Seconds"), fld(in, "t", "Nanos"), fld(in, "d", "Seconds"), fld(in, "d", "Nanos"))
	}},
	"timepb.Compare": {"support/timepb", "timepb", `"math/big"; tspb "google.golang.org/protobuf/types/known/timestamppb"`, func(in map[string]concVal) string {
		return fmt.Sprintf(`
	a := &tspb.Timestamp{Seconds: %s, Nanos: %s}
	b := &tspb.Timestamp{Seconds: %s, Nanos: %s}
	tot := func(s int64, n int32) *big.Int { r := big.NewInt(0).Mul(big.NewInt(s), big.NewInt(1000000000)); return r.Add(r, big.NewInt(int64(n))) }
	norm := func(x *tspb.Timestamp) bool { return x.Nanos >= 0 && x.Nanos < 1000000000 }
	got := Compare(a, b)
	if norm(a) && norm(b) && got != tot(a.Seconds, a.Nanos).Cmp(tot(b.Seconds, b.Nanos)) { violated(t, "Compare(%%v,%%v) = %%d is not chronological", a, b, got) }
	if got != -Compare(b, a) { violated(t, "Compare is not antisymmetric on %%v %%v", a, b) }
`, fld(in, "t1", "Seconds"), fld(in, "t1", "Nanos"), fld(in, "t2", "Seconds"), fld(in, "t2", "Nanos"))
	}},
	"anyutil.Unpack": {"anyutil", "anyutil", `"google.golang.org/protobuf/reflect/protoregistry"; "google.golang.org/protobuf/types/known/anypb"`, func(in map[string]concVal) string {
		return `
	// hand-written concretiser for the type-assertion obligation: a URL naming a non-message descriptor, absent from the type registry
	for _, url := range []string{"/google.protobuf.FieldDescriptorProto.Type", "/google.protobuf.FieldDescriptorProto.Label", "google.protobuf.FieldDescriptorProto.Type"} {
		func() {
			defer func() {
				if r := recover(); r != nil {
					violated(t, "Unpack panicked for type URL %q: %v", url, r)
				}
			}()
			_, _ = Unpack(&anypb.Any{TypeUrl: url}, protoregistry.GlobalFiles, &protoregistry.Types{})
		}()
	}
`
	}},
	"runtime.UnmarshalInputToOptions": {"testpb", "testpb", `"google.golang.org/protobuf/proto"; "google.golang.org/protobuf/encoding/protowire"; "google.golang.org/protobuf/types/dynamicpb"`, func(in map[string]concVal) string {
		return `
	// hand-written concretiser for the merge clause: a singular message field occurring twice must merge
	var sub1 []byte
	sub1 = protowire.AppendTag(sub1, 1, protowire.BytesType)
	sub1 = protowire.AppendString(sub1, "a")
	var in []byte
	in = protowire.AppendTag(in, 17, protowire.BytesType)
	in = protowire.AppendBytes(in, sub1)
	in = protowire.AppendTag(in, 17, protowire.BytesType)
	in = protowire.AppendBytes(in, nil)
	m := &A{}
	if err := proto.Unmarshal(in, m); err != nil {
		t.Skip(err)
	}
	ref := dynamicpb.NewMessage((&A{}).ProtoReflect().Descriptor())
	if err := proto.Unmarshal(in, ref); err != nil {
		t.Skip(err)
	}
	want := ref.Get(ref.Descriptor().Fields().ByName("MESSAGE")).Message()
	wantX := want.Get(want.Descriptor().Fields().ByName("x")).String()
	if got := m.GetMESSAGE().GetX(); got != wantX {
		violated(t, "field MESSAGE occurring twice: generated decoder gives x=%q, reference gives x=%q (second occurrence replaced the first instead of merging)", got, wantX)
	}
`
	}},
	"runtime.Sov": {"runtime", "runtime", `"google.golang.org/protobuf/encoding/protowire"`, func(in map[string]concVal) string {
		return fmt.Sprintf(`
	x := uint64(%s)
	if Sov(x) != protowire.SizeVarint(x) { violated(t, "Sov(%%#x) = %%d, protowire.SizeVarint = %%d", x, Sov(x), protowire.SizeVarint(x)) }
`, u64(in["x"].Int))
	}},
	"runtime.Soz": {"runtime", "runtime", `"google.golang.org/protobuf/encoding/protowire"`, func(in map[string]concVal) string {
		return fmt.Sprintf(`
	x := uint64(%s)
	if want := protowire.SizeVarint(protowire.EncodeZigZag(int64(x))); Soz(x) != want { violated(t, "Soz(%%#x) = %%d, protowire says %%d", x, Soz(x), want) }
`, u64(in["x"].Int))
	}},
	"runtime.EncodeVarint": {"runtime", "runtime", `"bytes"; "google.golang.org/protobuf/encoding/protowire"`, func(in map[string]concVal) string {
		return fmt.Sprintf(`
	buf := %s
	orig := append([]byte{}, buf...)
	offset, v := int(%s), uint64(%s)
	want := protowire.AppendVarint(nil, v)
	if len(want) > offset || offset > len(buf) { t.Skip("outside the precondition") }
	base := EncodeVarint(buf, offset, v)
	if base != offset-len(want) { violated(t, "EncodeVarint returned %%d, want %%d", base, offset-len(want)) }
	if !bytes.Equal(buf[base:offset], want) { violated(t, "EncodeVarint wrote %%x, minimal varint is %%x", buf[base:offset], want) }
	if !bytes.Equal(buf[:base], orig[:base]) || !bytes.Equal(buf[offset:], orig[offset:]) { violated(t, "EncodeVarint touched bytes outside [%%d,%%d)", base, offset) }
`, goBytes(in["dAtA"].Bytes), nz(in["offset"].Int), u64(in["v"].Int))
	}},
	"runtime.Skip": {"runtime", "runtime", `"google.golang.org/protobuf/encoding/protowire"`, func(in map[string]concVal) string {
		return fmt.Sprintf(`
	buf := %s
	n, err := Skip(buf)
	if err == nil && n <= 0 { violated(t, "Skip(%%x) = %%d, nil: no progress", buf, n) }
	if err != nil && n != 0 { violated(t, "Skip(%%x) = %%d with error %%v", buf, n, err) }
	num, typ, tl := protowire.ConsumeTag(buf)
	if tl > 0 && num > 0 && typ != protowire.StartGroupType && typ != protowire.EndGroupType {
		if vl := protowire.ConsumeFieldValue(num, typ, buf[tl:]); vl >= 0 {
			// well-formed first record: Skip must return exactly its length
			if err != nil || n != tl+vl { violated(t, "Skip(%%x) = (%%d, %%v), first record has length %%d", buf, n, err, tl+vl) }
		}
	}
`, goBytes(in["dAtA"].Bytes))
	}},
}

func u64(s string) string {
	if s == "" {
		return "0"
	}
	b, ok := new(big.Int).SetString(s, 10)
	if !ok {
		return "0"
	}
	if b.Sign() < 0 {
		b.Add(b, new(big.Int).Lsh(big.NewInt(1), 64))
	}
	return b.String()
}
func nz(s string) string {
	if s == "" {
		return "0"
	}
	return s
}

func (o oracle) source(in map[string]concVal) string {
	return fmt.Sprintf(`package %s

import (
	"fmt"
	"testing"
	%s
)

func violated(t *testing.T, f string, a ...interface{}) {
	fmt.Println("GOVC-REPLAY: VIOLATED " + fmt.Sprintf(f, a...))
	t.Fail()
}

func TestGovcReplay(t *testing.T) {
	defer func() {
		if r := recover(); r != nil {
			fmt.Println("GOVC-REPLAY: VIOLATED panic:", r)
			t.Fail()
		}
	}()
%s
}
`, o.pkgName, strings.ReplaceAll(o.imports, "; ", "\n\t"), o.body(in))
}

// runOverlayTest injects src as an in-package test of /repo/<pkgDir> and runs it.
func runOverlayTest(pkgDir, src string) (cmd string, out string, violated bool) {
	dir, _ := os.MkdirTemp("", "govc-replay-")
	defer os.RemoveAll(dir)
	tf := filepath.Join(dir, "zz_govc_replay_test.go")
	os.WriteFile(tf, []byte(src), 0o644)
	ov := map[string]map[string]string{"Replace": {filepath.Join(repoDir, pkgDir, "zz_govc_replay_test.go"): tf}}
	ob, _ := json.Marshal(ov)
	of := filepath.Join(dir, "overlay.json")
	os.WriteFile(of, ob, 0o644)
	args := []string{"test", "-overlay", of, "-vet=off", "-count=1", "-timeout", "60s", "-run", "^TestGovcReplay$", "./" + pkgDir}
	c := exec.Command("go", args...)
	c.Dir = repoDir
	c.Env = goEnv()
	b, _ := c.CombinedOutput()
	out = string(b)
	if len(out) > 4000 {
		out = out[:4000]
	}
	return "cd " + repoDir + " && go " + strings.Join(args, " ") + "   # overlay maps " + pkgDir + "/zz_govc_replay_test.go to the test source stored in this file", out, strings.Contains(out, "GOVC-REPLAY: VIOLATED")
}

func replayHand(rep *Report, r *Result) *ReplayOutcome {
	o := r.Obl
	c := o.ctx
	if c == nil || c.entry == nil || c.spec == nil {
		return nil
	}
	name := c.unit
	if i := strings.Index(name, "#"); i >= 0 {
		name = name[:i]
	}
	orc, ok := oracles[name]
	if !ok {
		return nil
	}
	binds := map[string]Val{}
	for obj, v := range c.entry.env {
		binds[obj.Name()] = v
	}
	in, ok := concretise(c, o, binds)
	if !ok {
		return &ReplayOutcome{Output: "could not concretise the model"}
	}
	src := orc.source(in)
	cmd, out, bad := runOverlayTest(orc.pkgDir, src)
	ins := map[string]interface{}{}
	for k, v := range in {
		ins[k] = v
	}
	return &ReplayOutcome{Confirmed: bad, Inputs: ins, Cmd: cmd, Output: out, TestFile: src}
}

func replayFile(b []byte) int {
	var doc struct {
		Property   string `json:"property"`
		Obligation string `json:"obligation"`
		Replay     *struct {
			TestFile string `json:"TestFile"`
			Cmd      string `json:"Cmd"`
		} `json:"replay"`
		Tag map[string]string `json:"tag"`
	}
	if err := json.Unmarshal(b, &doc); err != nil {
		fmt.Println(err)
		return 2
	}
	if doc.Tag["kind"] == "plugin-request" {
		plugin, err := buildPlugin()
		if err != nil {
			fmt.Println(err)
			return 2
		}
		rb, _ := base64.StdEncoding.DecodeString(doc.Tag["request_b64"])
		req := &pluginpb.CodeGeneratorRequest{}
		proto.Unmarshal(rb, req)
		files, perr, err := runPlugin(plugin, req)
		fmt.Printf("plugin: files=%d error=%q crash=%v\n", len(files), perr, err)
		if err != nil || perr != "" {
			fmt.Printf("VIOLATION property=%s replay=%s\n", doc.Property, os.Args[2])
			return 1
		}
		return 0
	}
	if doc.Replay == nil || doc.Replay.TestFile == "" {
		fmt.Printf("replay file for %s carries no concrete input (no-failing-input-found); re-run the check to re-prove the obligation %s\n", doc.Property, doc.Obligation)
		return 2
	}
	// package dir is recorded in the command line
	pkgDir := ""
	if i := strings.LastIndex(doc.Replay.Cmd, " ./"); i >= 0 {
		pkgDir = strings.Fields(doc.Replay.Cmd[i+3:])[0]
	}
	_, out, bad := runOverlayTest(pkgDir, doc.Replay.TestFile)
	fmt.Print(out)
	if bad {
		fmt.Printf("VIOLATION property=%s replay=%s\n", doc.Property, os.Args[2])
		return 1
	}
	return 0
}

// ---------- replay for generated-code obligations (hand-written concretisers per obligation family) ----------

var schemaByUnit = map[string]*MsgSchema{}

func keyWitness(k *FieldSchema) string {
	switch k.Kind {
	case "string":
		return `b = protowire.AppendTag(b, 1, protowire.BytesType); b = protowire.AppendString(b, "k")`
	case "fixed32", "sfixed32":
		return `b = protowire.AppendTag(b, 1, protowire.Fixed32Type); b = protowire.AppendFixed32(b, 7)`
	case "fixed64", "sfixed64":
		return `b = protowire.AppendTag(b, 1, protowire.Fixed64Type); b = protowire.AppendFixed64(b, 7)`
	}
	return `b = protowire.AppendTag(b, 1, protowire.VarintType); b = protowire.AppendVarint(b, 1)`
}

const usableAfter = `
	func() {
		defer func() {
			if r := recover(); r != nil {
				violated(t, "panic on input %x: %v", in, r)
			}
		}()
		m := new(MSG)
		if err := proto.Unmarshal(in, m); err != nil {
			return // rejecting the input is fine
		}
		_ = proto.Size(m)
		if _, err := proto.Marshal(m); err != nil {
			_ = err
		}
		_ = proto.Equal(m, m)
		m.ProtoReflect().Range(func(fd protoreflect.FieldDescriptor, v protoreflect.Value) bool { return true })
	}()
`

func replayGen(rep *Report, r *Result) *ReplayOutcome {
	o := r.Obl
	ms := schemaByUnit[o.ctx.unit]
	if ms == nil {
		return nil
	}
	pkgDir := strings.TrimPrefix(strings.TrimPrefix(ms.Pkg.PkgPath, repoModule), "/")
	if !strings.HasPrefix(ms.Pkg.PkgPath, repoModule) {
		return nil // fresh code lives in a scratch module: no overlay replay
	}
	var body string
	switch {
	case strings.Contains(o.Name, "/typednil/"):
		parts := strings.Split(o.Name, "/")
		var oo *OneofSchema
		for i, p := range parts {
			if p == "typednil" && i+1 < len(parts) {
				oo = ms.oneof(parts[i+1])
			}
		}
		if oo == nil || len(oo.Members) == 0 {
			return nil
		}
		body = fmt.Sprintf(`
	m := &%s{%s: (*%s)(nil)}
	func() {
		defer func() {
			if r := recover(); r != nil {
				violated(t, "typed-nil oneof wrapper: Size/Marshal panicked: %%v", r)
			}
		}()
		sz := proto.Size(m)
		b, err := proto.Marshal(m)
		if err == nil && len(b) != sz {
			violated(t, "typed-nil oneof wrapper: Size=%%d but Marshal produced %%d bytes", sz, len(b))
		}
	}()
`, ms.Name, oo.GoName, oo.Members[0].Wrapper.Obj().Name())
	case o.ctx.tag["method"] == "Clear" && strings.Contains(o.Name, "keeps another selected member"):
		// D6-style witness: select one member, clear another member of the same oneof
		var oo *OneofSchema
		for _, x := range ms.Oneofs {
			if len(x.Members) >= 2 && strings.Contains(o.Name, "."+x.Members[0].ProtoName+"/") || len(x.Members) >= 2 && func() bool {
				for _, m := range x.Members {
					if strings.Contains(o.Name, "."+m.ProtoName+"/") {
						return true
					}
				}
				return false
			}() {
				oo = x
			}
		}
		if oo == nil {
			return nil
		}
		body = fmt.Sprintf(`
	m := (&%s{}).ProtoReflect()
	od := m.Descriptor().Oneofs().ByName(%q)
	if od == nil || od.Fields().Len() < 2 {
		t.Skip("no oneof with two members")
	}
	for i := 0; i < od.Fields().Len(); i++ {
		for j := 0; j < od.Fields().Len(); j++ {
			if i == j {
				continue
			}
			keep, other := od.Fields().Get(i), od.Fields().Get(j)
			if keep.Message() != nil {
				m.Mutable(keep)
			} else {
				m.Set(keep, m.NewField(keep))
			}
			m.Clear(other)
			if m.WhichOneof(od) == nil || m.WhichOneof(od).FullName() != keep.FullName() {
				violated(t, "Clear(%%s) while %%s was set: oneof is now %%v", other.FullName(), keep.FullName(), m.WhichOneof(od))
				return
			}
		}
	}
`, ms.Name, oo.Name)
	case strings.Contains(o.Name, "/nilrecv/"):
		method := o.ctx.tag["method"]
		call := map[string]string{
			"Has":        "_ = m.Has(fd)",
			"Get":        "_ = m.Get(fd)",
			"Range":      "m.Range(func(protoreflect.FieldDescriptor, protoreflect.Value) bool { return true })",
			"GetUnknown": "_ = m.GetUnknown()",
			"WhichOneof": "if ods := (&" + ms.Name + "{}).ProtoReflect().Descriptor().Oneofs(); ods.Len() > 0 { _ = m.WhichOneof(ods.Get(0)) }",
		}[method]
		if call == "" {
			return nil
		}
		body = fmt.Sprintf(`
	fds := (&%s{}).ProtoReflect().Descriptor().Fields()
	if fds.Len() == 0 {
		t.Skip("message without fields")
	}
	fd := fds.Get(0)
	_ = fd
	var nilMsg *%s
	m := nilMsg.ProtoReflect()
	func() {
		defer func() {
			if r := recover(); r != nil {
				violated(t, "%s on a nil message panicked: %%v", r)
			}
		}()
		%s
	}()
`, ms.Name, ms.Name, method, call)
	case o.Kind == "wf":
		// map entry without a value / list element: <unit>/<Field>/wf[…]
		parts := strings.Split(o.Name, "/")
		if len(parts) < 3 {
			return nil
		}
		f := ms.field(parts[1])
		if f == nil || !f.IsMap {
			return nil
		}
		body = fmt.Sprintf(`
	var b []byte
	%s
	var in []byte
	in = protowire.AppendTag(in, %d, protowire.BytesType)
	in = protowire.AppendBytes(in, b)
`, keyWitness(f.Key), f.Num) + strings.ReplaceAll(usableAfter, "MSG", ms.Name)
	case strings.HasSuffix(o.ctx.unit, ".unmarshal") && r.Res == "sat":
		// the solver's model gives concrete input bytes: decode them with the generated code and with the reference
		// (dynamicpb); confirmed when the generated code panics, rejects what the reference accepts, or decodes to
		// something else (compared through the deterministic reference encoding)
		in, ok := modelInputBytes(o)
		if !ok {
			return nil
		}
		body = fmt.Sprintf(`
	full := %s
	// the obligation speaks about one record: the bytes after it in the model are arbitrary, so every prefix is tried
	for n := 1; n <= len(full) && !t.Failed(); n++ {
		in := full[:n]
		var m %s
		var err1 error
		func() {
			defer func() {
				if r := recover(); r != nil {
					violated(t, "input %%x: Unmarshal panicked: %%v", in, r)
				}
			}()
			err1 = proto.Unmarshal(in, &m)
		}()
		if t.Failed() {
			return
		}
		ref := dynamicpb.NewMessage((&%s{}).ProtoReflect().Descriptor())
		err2 := proto.Unmarshal(in, ref)
		if err1 != nil && err2 == nil {
			violated(t, "input %%x: rejected (%%v) but the reference decoder accepts it", in, err1)
			return
		}
		if err1 == nil && err2 == nil {
			b1, e1 := proto.MarshalOptions{Deterministic: true}.Marshal(&m)
			b2, e2 := proto.MarshalOptions{Deterministic: true}.Marshal(ref)
			if e1 == nil && e2 == nil && string(b1) != string(b2) {
				violated(t, "input %%x: decoded message re-encodes to %%x, the reference's to %%x", in, b1, b2)
			}
		}
	}
`, goBytes(in), ms.Name, ms.Name)
	default:
		return nil
	}
	src := fmt.Sprintf(`package %s

import (
	"fmt"
	"testing"

	"google.golang.org/protobuf/types/dynamicpb"

	"google.golang.org/protobuf/encoding/protowire"
	"google.golang.org/protobuf/proto"
	"google.golang.org/protobuf/reflect/protoreflect"
)

var _ = protowire.AppendTag
var _ protoreflect.Kind
var _ = proto.Size
var _ = dynamicpb.NewMessage

func violated(t *testing.T, f string, a ...interface{}) {
	fmt.Println("GOVC-REPLAY: VIOLATED " + fmt.Sprintf(f, a...))
	t.Fail()
}

func TestGovcReplay(t *testing.T) {
%s
}
`, ms.Pkg.Types.Name(), body)
	cmd, out, bad := runOverlayTest(pkgDir, src)
	return &ReplayOutcome{Confirmed: bad, Cmd: cmd, Output: out, TestFile: src, Inputs: map[string]interface{}{"witness": "hand-written concretiser for obligation family " + o.Kind}}
}

// modelInputBytes reads input.Buf out of a model of a failing obligation of an unmarshal unit (at most 256 bytes; the
// model is asked for the shortest of 16/64/256 bytes that still falsifies the obligation)
func modelInputBytes(o *Obl) ([]int, bool) {
	if o.OpaqueSpec {
		// a model over uninterpreted wire functions says nothing about real bytes: ask again with their definitions
		oo := *o
		oo.OpaqueSpec = false
		o = &oo
	}
	c := o.ctx
	if c.entry == nil {
		return nil, false
	}
	var buf SliceV
	found := false
	for ob, v := range c.entry.env {
		if ob.Name() == "input" {
			if sv, ok := v.(StructV); ok {
				if b, ok := sv.F["Buf"].(SliceV); ok {
					buf, found = b, true
				}
			}
		}
	}
	if !found {
		return nil, false
	}
	arr := c.sliceArr(c.entry, buf)
	for _, n := range []int64{16, 64, 256} {
		extra := and(c.leIdx(buf.Len, c.ilit(n)), "(= "+buf.Off+" "+c.ilit(0)+")")
		vals, ok := evalTerms(o, extra, []string{buf.Len}, 20)
		if !ok {
			continue
		}
		ln, ok := smtValToBig(vals[buf.Len])
		if !ok || ln.Int64() < 0 || ln.Int64() > n {
			continue
		}
		var terms []string
		for i := int64(0); i < ln.Int64(); i++ {
			terms = append(terms, "(select "+arr+" "+c.ilit(i)+")")
		}
		extra2 := and(extra, "(= "+buf.Len+" "+c.ilit(ln.Int64())+")")
		bv, ok := evalTerms(o, extra2, terms, 20)
		if !ok {
			continue
		}
		out := make([]int, 0, len(terms))
		for _, t := range terms {
			b, ok := smtValToBig(bv[t])
			if !ok {
				return nil, false
			}
			out = append(out, int(b.Int64()))
		}
		return out, true
	}
	return nil, false
}
