package main

// Roles of the conventional local variables of the generated closures (dAtA, iNdEx, l, wireType, preIndex, skippy,
// options, mapkey, mapvalue, n, i).  The family engines refer to them by role; the identifier that plays a role is
// found structurally in the closure, so that renaming a local in a template is not reported as a violation.

import (
	"go/ast"
	"go/token"
	"go/types"
)

// roleAlias: role -> identifier used by the closure under analysis (unit generation is sequential)
var roleAlias = map[string]string{}

func role(name string) string {
	if a, ok := roleAlias[name]; ok {
		return a
	}
	return name
}

func identName(e ast.Expr) string {
	if id, ok := e.(*ast.Ident); ok {
		return id.Name
	}
	return ""
}

func isCallTo(e ast.Expr, name string) (*ast.CallExpr, bool) {
	c, ok := e.(*ast.CallExpr)
	if !ok {
		return nil, false
	}
	switch f := c.Fun.(type) {
	case *ast.Ident:
		return c, f.Name == name
	case *ast.SelectorExpr:
		return c, f.Sel.Name == name
	}
	return c, false
}

// detectRoles fills roleAlias for one closure (unmarshal, size or marshal)
func detectRoles(lit *ast.FuncLit, closure string) {
	roleAlias = map[string]string{}
	set := func(role, name string) {
		if name != "" && name != "_" {
			if _, done := roleAlias[role]; !done {
				roleAlias[role] = name
			}
		}
	}
	input := ""
	if len(lit.Type.Params.List) > 0 && len(lit.Type.Params.List[0].Names) > 0 {
		input = lit.Type.Params.List[0].Names[0].Name
	}
	ast.Inspect(lit.Body, func(n ast.Node) bool {
		switch s := n.(type) {
		case *ast.AssignStmt:
			if len(s.Lhs) >= 1 && len(s.Rhs) == 1 {
				rhs := s.Rhs[0]
				lhs0 := identName(s.Lhs[0])
				// dAtA := input.Buf  |  dAtA := make([]byte, size)
				if sel, ok := rhs.(*ast.SelectorExpr); ok && sel.Sel.Name == "Buf" && identName(sel.X) == input && s.Tok == token.DEFINE {
					set("dAtA", lhs0)
				}
				if c, ok := isCallTo(rhs, "make"); ok && closure == "marshal" && len(c.Args) == 2 {
					if at, ok := c.Args[0].(*ast.ArrayType); ok && at.Len == nil && identName(at.Elt) == "byte" && s.Tok == token.DEFINE {
						set("dAtA", lhs0)
					}
				}
				// l := len(dAtA)   |  i := len(dAtA) (marshal)
				if c, ok := isCallTo(rhs, "len"); ok && len(c.Args) == 1 && identName(c.Args[0]) == role("dAtA") && s.Tok == token.DEFINE {
					if closure == "marshal" {
						set("i", lhs0)
					} else {
						set("l", lhs0)
					}
				}
				// options := runtime.XInputToOptions(input)
				if c, ok := rhs.(*ast.CallExpr); ok {
					if sel, ok := c.Fun.(*ast.SelectorExpr); ok && len(c.Args) == 1 && identName(c.Args[0]) == input {
						switch sel.Sel.Name {
						case "UnmarshalInputToOptions", "MarshalInputToOptions", "SizeInputToOptions":
							set("options", lhs0)
						}
					}
					// skippy, err := runtime.Skip(...)
					if sel, ok := c.Fun.(*ast.SelectorExpr); ok && sel.Sel.Name == "Skip" && len(s.Lhs) == 2 {
						set("skippy", lhs0)
					}
					// wireType := int(wire & 0x7)
					if identName(c.Fun) == "int" && len(c.Args) == 1 {
						if be, ok := c.Args[0].(*ast.BinaryExpr); ok && be.Op == token.AND {
							if bl, ok := be.Y.(*ast.BasicLit); ok && (bl.Value == "0x7" || bl.Value == "7") {
								set("wireType", lhs0)
							}
						}
					}
				}
				// x.F[mapkey] = mapvalue
				if ix, ok := s.Lhs[0].(*ast.IndexExpr); ok && s.Tok == token.ASSIGN {
					if _, isSel := ix.X.(*ast.SelectorExpr); isSel && identName(ix.Index) != "" && identName(rhs) != "" {
						set("mapkey", identName(ix.Index))
						set("mapvalue", identName(rhs))
					}
				}
			}
		case *ast.ForStmt:
			// for iNdEx < l { preIndex := iNdEx …
			if be, ok := s.Cond.(*ast.BinaryExpr); ok && be.Op == token.LSS && identName(be.Y) == role("l") && identName(be.X) != "" && closure == "unmarshal" {
				if _, done := roleAlias["iNdEx"]; !done {
					set("iNdEx", identName(be.X))
					if len(s.Body.List) > 0 {
						if as, ok := s.Body.List[0].(*ast.AssignStmt); ok && as.Tok == token.DEFINE && len(as.Lhs) == 1 && len(as.Rhs) == 1 && identName(as.Rhs[0]) == identName(be.X) {
							set("preIndex", identName(as.Lhs[0]))
						}
					}
				}
			}
		case *ast.DeclStmt:
			// size: var n int; var l int
			if gd, ok := s.Decl.(*ast.GenDecl); ok && gd.Tok == token.VAR && closure == "size" {
				for _, sp := range gd.Specs {
					if vs, ok := sp.(*ast.ValueSpec); ok && len(vs.Names) == 1 && identName(vs.Type) == "int" && len(vs.Values) == 0 {
						if _, done := roleAlias["n"]; !done {
							set("n", vs.Names[0].Name)
						} else {
							set("l", vs.Names[0].Name)
						}
					}
				}
			}
		}
		return true
	})
}

var _ types.Type
