package main

// Running a check: solve, classify, known findings, replay files, evidence.

import (
	"encoding/json"
	"fmt"
	"os"
	"path/filepath"
	"regexp"
	"sort"
	"strings"
	"sync"
	"time"
)

const verifDir = "/verif"

var evidenceDir = "/verif/evidence"

type Ground struct {
	Name   string
	OK     bool
	Text   string
	Detail string
	Tag    map[string]string
}

type Report struct {
	Property    string
	Tier        string
	Seed        int64
	Units       []*Unit
	Grounds     []Ground
	Bounded     []string
	Assumptions []string
	Trusted     []string
	Notes       []string
	Programs    []string
	Extra       map[string]interface{}
	start       time.Time
	// replayer turns a failing obligation + model into a concrete replay on the real code (may be nil)
	Replayer func(rep *Report, r *Result) *ReplayOutcome
}

type ReplayOutcome struct {
	Confirmed bool
	Inputs    map[string]interface{}
	Cmd       string
	Output    string
	TestFile  string
}

type KnownFinding struct {
	Property   string `json:"property"`
	Obligation string `json:"obligation"` // exact name or glob with *
	What       string `json:"what"`
	Witness    string `json:"witness"`
	Defect     string `json:"defect"`
}

type KnownFile struct {
	Findings []KnownFinding `json:"findings"`
	Fixed    []string       `json:"fixed"`
}

func loadKnown() KnownFile {
	var k KnownFile
	b, err := os.ReadFile(filepath.Join(verifDir, "known_findings.json"))
	if err == nil {
		json.Unmarshal(b, &k)
	}
	return k
}

func globMatch(pat, s string) bool {
	re := "^" + strings.ReplaceAll(regexp.QuoteMeta(pat), `\*`, ".*") + "$"
	ok, _ := regexp.MatchString(re, s)
	return ok
}

func tierTimeout(tier string) int {
	if tier == "thorough" {
		return 120
	}
	return 30
}

type failure struct {
	Name, Kind, Text, Pos, Res, Backend, Model, Raw string
	Tag                                             map[string]string
	res                                             *Result
	ground                                          *Ground
}

func (rep *Report) finish() int {
	timeout := tierTimeout(rep.Tier)
	var obls []*Obl
	for _, u := range rep.Units {
		if u.Ctx != nil {
			obls = append(obls, u.Ctx.obls...)
		}
	}
	if os.Getenv("GOVC_V") != "" {
		for _, u := range rep.Units {
			if u.Ctx != nil {
				fmt.Fprintf(os.Stderr, "unit %s: %d obligations, %d background lines, generated at %.1fs\n", u.Name, len(u.Ctx.obls), len(u.Ctx.bg), time.Since(rep.start).Seconds())
			}
		}
	}
	results := solveAll(obls, timeout, 16)
	if os.Getenv("GOVC_V") != "" {
		fmt.Fprintf(os.Stderr, "first pass solved at %.1fs\n", time.Since(rep.start).Seconds())
		srt := append([]Result{}, results...)
		sort.Slice(srt, func(i, j int) bool { return srt[i].Dur > srt[j].Dur })
		for i := 0; i < 12 && i < len(srt); i++ {
			fmt.Fprintf(os.Stderr, "  slow: %s %.1fs\n", srt[i].Obl.Name, srt[i].Dur.Seconds())
		}
		for _, r := range results {
			if r.Res != r.Obl.Expect || r.Dur.Seconds() > 5 || os.Getenv("GOVC_V") == "2" {
				fmt.Fprintf(os.Stderr, "  %s: %s %.1fs %s\n", r.Obl.Name, r.Res, r.Dur.Seconds(), r.Backend)
			}
		}
	}
	for _, r := range results {
		if r.Res == "error" {
			fmt.Printf("BROKEN: solver rejected the script of %s: %s\n", r.Obl.Name, strings.SplitN(r.Raw, "\n", 2)[0])
			return 2
		}
	}
	// second chance for non-answers with a longer timeout before calling anything a failure
	// (in parallel, and at most 40 of them: a tree on which more than that stay undecided is reported as it is)
	{
		var idx []int
		for i := range results {
			if results[i].Res != "sat" && results[i].Res != "unsat" && len(idx) < 40 {
				idx = append(idx, i)
			}
		}
		var wg sync.WaitGroup
		sem := make(chan struct{}, 5)
		for _, i := range idx {
			wg.Add(1)
			sem <- struct{}{}
			go func(i int) {
				defer wg.Done()
				defer func() { <-sem }()
				rr := solveOne(results[i].Obl, timeout*3)
				rr.Dur += results[i].Dur
				results[i] = rr
			}(i)
		}
		wg.Wait()
	}
	known := loadKnown()
	os.RemoveAll(filepath.Join(evidenceDir, "replay", rep.Property))
	var failures []failure
	byBackend := map[string]*struct {
		N int     `json:"n"`
		S float64 `json:"s"`
	}{}
	kinds := map[string]int{}
	discharged, probes, probesOK := 0, 0, 0
	var solverS float64
	var slowest []string
	for i := range results {
		r := &results[i]
		o := r.Obl
		solverS += r.Dur.Seconds()
		if r.Dur.Seconds() > float64(timeout)/3 {
			slowest = append(slowest, fmt.Sprintf("%s %.1fs %s", o.Name, r.Dur.Seconds(), r.Backend))
		}
		if o.Expect == "sat" {
			probes++
			if r.Res == "sat" {
				probesOK++
			} else {
				failures = append(failures, failure{Name: o.Name, Kind: "vacuity", Text: o.Text + " — expected satisfiable, got " + r.Res, Pos: o.Pos, Res: r.Res, Backend: r.Backend, Raw: r.Raw, res: r, Tag: o.Tag})
			}
			continue
		}
		kinds[o.Kind]++
		if r.Res == "unsat" {
			discharged++
			b := byBackend[r.Backend]
			if b == nil {
				b = &struct {
					N int     `json:"n"`
					S float64 `json:"s"`
				}{}
				byBackend[r.Backend] = b
			}
			b.N++
			b.S += r.Dur.Seconds()
			continue
		}
		failures = append(failures, failure{Name: o.Name, Kind: o.Kind, Text: o.Text, Pos: o.Pos, Res: r.Res, Backend: r.Backend, Model: r.Model, Raw: r.Raw, res: r, Tag: o.Tag})
	}
	nObl := 0
	for _, o := range obls {
		if o.Expect != "sat" {
			nObl++
		}
	}
	for _, u := range rep.Units {
		rep.Grounds = append(rep.Grounds, u.Grounds...)
	}
	groundOK := 0
	for i := range rep.Grounds {
		g := &rep.Grounds[i]
		kinds["ground"]++
		nObl++
		if g.OK {
			groundOK++
			discharged++
		} else {
			failures = append(failures, failure{Name: g.Name, Kind: "ground", Text: g.Text, Res: "false", Backend: "ground evaluation", Raw: g.Detail, ground: g, Tag: g.Tag})
		}
	}
	// units that fell outside the supported subset are a broken check, not a violation — unless listed
	var notUnder []string
	var under []map[string]string
	broken := 0
	for _, u := range rep.Units {
		if u.Skipped != "" {
			notUnder = append(notUnder, u.Name+": "+u.Skipped)
			failures = append(failures, failure{Name: u.Name + "/under-contract", Kind: "subset", Text: "function can be brought under contract: " + u.Skipped, Res: "unsupported"})
			fmt.Println("NOT-UNDER-CONTRACT:", u.Name, u.Skipped)
			continue
		}
		m := map[string]string{"name": u.Name, "file": u.File}
		if u.Ctx != nil {
			m["mode"] = u.Ctx.mode
			m["obligations"] = fmt.Sprint(len(u.Ctx.obls))
		}
		under = append(under, m)
	}
	_ = broken
	// classify failures
	violations := 0
	var knownSeen []string
	var violationLines []string
	knownCount := map[int]int{}
	knownFirst := map[int]string{}
	for _, f := range failures {
		matched := false
		for ki, k := range known.Findings {
			if k.Property == rep.Property && globMatch(k.Obligation, f.Name) {
				matched = true
				knownCount[ki]++
				if knownFirst[ki] == "" {
					knownFirst[ki] = f.Name
				}
				break
			}
		}
		if matched {
			continue
		}
		violations++
		path := rep.writeReplay(f)
		suffix := ""
		if !strings.HasSuffix(path, ".confirmed.json") {
			suffix = " no-failing-input-found"
		}
		violationLines = append(violationLines, fmt.Sprintf("VIOLATION property=%s replay=%s obligation=%s%s", rep.Property, path, f.Name, suffix))
	}
	for ki, k := range known.Findings {
		if n := knownCount[ki]; n > 0 {
			knownSeen = append(knownSeen, fmt.Sprintf("KNOWN-FINDING: property=%s %s [%d obligation(s) matching %s, e.g. %s] (%s)", rep.Property, k.What, n, k.Obligation, knownFirst[ki], k.Defect))
		}
	}
	sort.Strings(knownSeen)
	seen := map[string]bool{}
	for _, l := range knownSeen {
		if !seen[l] {
			fmt.Println(l)
			seen[l] = true
		}
	}
	for _, l := range violationLines {
		fmt.Println(l)
	}
	// evidence
	abstr := map[string]int{}
	usedSpecs := map[string]bool{}
	for _, u := range rep.Units {
		if u.Ctx == nil {
			continue
		}
		for k, n := range u.Ctx.abstr {
			abstr[k] += n
		}
		for k := range u.Ctx.usedSpecs {
			usedSpecs[k] = true
		}
	}
	var abstrL []string
	for _, k := range sortedKeys(abstr) {
		abstrL = append(abstrL, fmt.Sprintf("%s ×%d", k, abstr[k]))
	}
	var samples []map[string]interface{}
	step := len(results)/6 + 1
	for i := 0; i < len(results) && len(samples) < 8; i += step {
		r := results[i]
		goal := r.Obl.Goal
		if len(goal) > 300 {
			goal = goal[:300] + "…"
		}
		samples = append(samples, map[string]interface{}{"obligation": r.Obl.Name, "kind": r.Obl.Kind, "clause": r.Obl.Text, "at": r.Obl.Pos, "smt_goal": goal, "result": r.Res, "backend": r.Backend, "ms": r.Dur.Milliseconds()})
	}
	for _, g := range rep.Grounds {
		if len(samples) < 12 {
			samples = append(samples, map[string]interface{}{"obligation": g.Name, "kind": "ground", "clause": g.Text, "result": map[bool]string{true: "holds", false: "fails"}[g.OK], "backend": "ground evaluation"})
		}
	}
	if len(samples) == 0 {
		samples = append(samples, map[string]interface{}{"note": "no obligations generated"})
	}
	knownObl := 0
	for _, n := range knownCount {
		knownObl += n
	}
	cov := map[string]interface{}{
		// obligations that belong to a listed known finding are reported apart: they are neither claimed nor discharged
		"obligations": nObl - knownObl, "discharged": discharged,
		"known_finding_obligations_not_discharged": knownObl,
		"checker_cmd":                  "govc (VC generator over the typed Go AST of /repo) + z3-new 5.1.0 | z3 4.8.12 | cvc5 1.0.3 per obligation (see by_backend)",
		"trusted_base":                 rep.Trusted,
		"functions_under_contract":     under,
		"functions_not_under_contract": notUnder,
		"by_backend":                   byBackend,
		"by_kind":                      kinds,
		"solver_seconds":               solverS,
		"slow_obligations":             slowest,
		"abstracted":                   abstrL,
		"bounded":                      rep.Bounded,
		"known_findings_seen":          knownSeen,
		"vacuity":                      map[string]int{"probes_expected_sat": probes, "probes_sat": probesOK},
		"ground_checks":                map[string]int{"total": len(rep.Grounds), "ok": groundOK},
		"callee_contracts_used":        sortedKeys(usedSpecs),
		"programs_list":                rep.Programs,
		"samples":                      samples,
		"notes":                        rep.Notes,
		"failed_obligations":           len(failures),
	}
	for k, v := range rep.Extra {
		cov[k] = v
	}
	ev := map[string]interface{}{
		"property_id": rep.Property, "tier": rep.Tier, "seed": rep.Seed, "level": "proof",
		"coverage": cov, "assumptions": append([]string{}, rep.Assumptions...), "wall_s": time.Since(rep.start).Seconds(), "violations": violations,
	}
	os.MkdirAll(evidenceDir, 0o755)
	b, _ := json.MarshalIndent(ev, "", " ")
	os.WriteFile(filepath.Join(evidenceDir, rep.Property+".json"), b, 0o644)
	fmt.Printf("%s %s: %d obligations, %d discharged, %d failed (%d known), %d vacuity probes ok/%d, %.1fs wall, %.1fs solver\n",
		rep.Property, rep.Tier, nObl, discharged, len(failures), len(failures)-violations, probesOK, probes, time.Since(rep.start).Seconds(), solverS)
	if nObl == 0 {
		fmt.Println("BROKEN: no obligations generated")
		return 2
	}
	if violations > 0 {
		return 1
	}
	return 0
}

func (rep *Report) writeReplay(f failure) string {
	dir := filepath.Join(evidenceDir, "replay", rep.Property)
	os.MkdirAll(dir, 0o755)
	var out *ReplayOutcome
	if rep.Replayer != nil && f.res != nil && f.res.Res == "sat" {
		func() {
			defer func() {
				if r := recover(); r != nil {
					out = &ReplayOutcome{Output: fmt.Sprint("replay construction failed: ", r)}
				}
			}()
			out = rep.Replayer(rep, f.res)
		}()
	}
	if f.ground != nil && f.ground.Tag["kind"] == "plugin-request" {
		// the ground evaluation was itself a run of the real plugin on this request: the failing input is in hand
		out = &ReplayOutcome{Confirmed: true, Inputs: map[string]interface{}{"request_b64": f.ground.Tag["request_b64"]}, Cmd: "/verif/bin/govc replay <this file>   # rebuilds the plugin from /repo and re-sends the CodeGeneratorRequest", Output: f.ground.Detail}
	}
	if f.ground != nil && f.ground.Tag["kind"] == "overlay-test" {
		// hand-written concretiser: an in-package test of the property on the real code
		cmd, o, bad := runOverlayTest(f.ground.Tag["pkg"], f.ground.Tag["src"])
		out = &ReplayOutcome{Confirmed: bad, Cmd: cmd, Output: o, TestFile: f.ground.Tag["src"], Inputs: map[string]interface{}{"witness": "hand-written concretiser"}}
	}
	model := f.Model
	if len(model) > 6000 {
		model = model[:6000] + "\n…(truncated)"
	}
	doc := map[string]interface{}{
		"property": rep.Property, "obligation": f.Name, "kind": f.Kind, "clause": f.Text, "at": f.Pos,
		"solver_result": f.Res, "backend": f.Backend, "solver_output": model, "detail": f.Raw, "tag": f.Tag,
	}
	if f.res != nil && f.res.Res != "sat" && len(f.Raw) > 0 {
		r := f.Raw
		if len(r) > 2000 {
			r = r[:2000]
		}
		doc["detail"] = r
	}
	suffix := ".json"
	if out != nil {
		doc["replay"] = out
		if out.Confirmed {
			suffix = ".confirmed.json"
		}
	}
	if out == nil || !out.Confirmed {
		doc["note"] = "no-failing-input-found: the obligation does not discharge on this tree; no concrete input was confirmed against the real code"
	}
	name := sanitize(f.Name)
	if len(name) > 150 {
		name = name[:150]
	}
	path := filepath.Join(dir, name+suffix)
	b, _ := json.MarshalIndent(doc, "", " ")
	os.WriteFile(path, b, 0o644)
	return path
}
