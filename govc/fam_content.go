package main

// C02: byte content of what marshal writes, against the wire-format spec EncField_f (DESIGN.md Appendix A).
// Every write event (a singular field block, one iteration of a repeated/map loop, a packed header) is followed by a
// local obligation: for an arbitrary position t inside the bytes the event produced, dAtA[pos+t] equals the t-th byte
// of the spec encoding of that value: tag bytes of Tag(num, wiretype), minimal varints, zig-zag, little-endian fixed,
// length prefix + content, nested encodings through the callee's contract. Block order is checked against LegacyRank.

import (
	"fmt"
	"strings"
)

// byteOfConst: ite chain selecting the t-th byte of a constant byte string
func byteOfConst(bs []byte, t string) string {
	r := fmt.Sprintf("#x%02x", bs[len(bs)-1])
	for i := len(bs) - 2; i >= 0; i-- {
		r = fmt.Sprintf("(ite (= %s %d) #x%02x %s)", t, i, bs[i], r)
	}
	return r
}

func sub(t string, n string) string {
	if n == "0" {
		return t
	}
	return "(- " + t + " " + n + ")"
}

// payloadByte: t-th byte of the encoded payload (no tag) of value v of element kind f
func (e *smEngine) payloadByte(st *State, f *FieldSchema, v Val, t string) string {
	c := e.c
	switch f.Kind {
	case "bool":
		return "(ite " + v.(Scalar).T + " #x01 #x00)"
	case "int32", "int64", "uint32", "uint64", "enum":
		return "(VarintByte " + ext64(c, v.(Scalar)) + " " + t + ")"
	case "sint32":
		return "(VarintByte ((_ zero_extend 32) (ZigZag32 " + v.(Scalar).T + ")) " + t + ")"
	case "sint64":
		return "(VarintByte (ZigZag64 " + v.(Scalar).T + ") " + t + ")"
	case "fixed32", "sfixed32", "float":
		bits := v.(Scalar).T
		r := fmt.Sprintf("((_ extract 31 24) %s)", bits)
		for i := 2; i >= 0; i-- {
			r = fmt.Sprintf("(ite (= %s %d) ((_ extract %d %d) %s) %s)", t, i, 8*i+7, 8*i, bits, r)
		}
		return r
	case "fixed64", "sfixed64", "double":
		bits := v.(Scalar).T
		r := fmt.Sprintf("((_ extract 63 56) %s)", bits)
		for i := 6; i >= 0; i-- {
			r = fmt.Sprintf("(ite (= %s %d) ((_ extract %d %d) %s) %s)", t, i, 8*i+7, 8*i, bits, r)
		}
		return r
	case "string", "bytes":
		sv := v.(SliceV)
		vl := "(VarintLenI " + sv.Len + ")"
		return fmt.Sprintf("(ite (< %s %s) (VarintByteI %s %s) (select %s %s))", t, vl, sv.Len, t, c.sliceArr(st, sv), c.addIdx(sv.Off, sub(t, vl)))
	case "message":
		p := v.(PtrV)
		s := "(SizeSpec " + p.Ref + ")"
		vl := "(VarintLenI " + s + ")"
		c.declareFun("EncMsg", "(Int Int) (_ BitVec 8)")
		return fmt.Sprintf("(ite (< %s %s) (VarintByteI %s %s) (EncMsg %s %s))", t, vl, s, t, p.Ref, sub(t, vl))
	}
	panic(unsupported{"payloadByte: kind " + f.Kind})
}

// fieldByte: tag + payload
func (e *smEngine) fieldByte(st *State, f *FieldSchema, num, wt int, v Val, t string) string {
	tb := tagBytes(num, wt)
	tl := fmt.Sprint(len(tb))
	return fmt.Sprintf("(ite (< %s %s) %s %s)", t, tl, byteOfConst(tb, t), e.payloadByte(st, f, v, sub(t, tl)))
}

// contentObl: for all t in [0, n): dAtA[pos + t] == spec(t)   (t skolemised)
func (e *smEngine) contentObl(st *State, name, pos, n string, spec func(t string) string, where, text string) {
	c := e.c
	d, ok := envByName(st, "dAtA", 1<<40)
	if !ok {
		return
	}
	dv := d.(SliceV)
	t := c.fresh("t", c.idx())
	save := c.noDef
	c.noDef = true
	sp := spec(t)
	c.noDef = save
	goal := implies(and("(<= 0 "+t+")", "(< "+t+" "+n+")"), "(= (select "+c.sliceArr(st, dv)+" "+c.addIdx(dv.Off, c.addIdx(pos, t))+") "+sp+")")
	c.addObl(Obl{Name: name, Kind: "content", Guard: st.guard, Goal: goal, Pos: where, Text: text})
}

// singularContent: after a singular / oneof block: the FieldSize_f bytes at [i', i) are EncField_f
func (e *smEngine) singularContent(u *Unit, base, end *State, g *smGroup, a1, fs string, where string) {
	c := e.c
	if len(g.fields) != 1 {
		return
	}
	name := g.fields[0]
	if oo := e.ms.oneof(name); oo != nil {
		iv := c.loadField(base, e.x, name).(IfaceV)
		e.contentObl(end, fmt.Sprintf("%s/%s/content[== EncField]", u.Name, name), a1, fs, func(t string) string {
			r := "#x00"
			for _, m := range oo.Members {
				w := PtrV{Ref: iv.Ref, Named: m.Wrapper}
				pv := c.loadField(base, w, m.GoName)
				r = fmt.Sprintf("(ite (= %s %d) %s %s)", iv.Tag, c.typeTag(m.Wrapper), e.fieldByte(base, m, m.Num, m.wireType(), pv, t), r)
			}
			return r
		}, where, "the bytes written for the oneof are tag ++ payload of the selected member (zero values included)")
		return
	}
	f := e.ms.field(name)
	if f == nil || f.Rep || f.IsMap {
		return
	}
	v := c.loadField(base, e.x, name)
	e.contentObl(end, fmt.Sprintf("%s/%s/content[== EncField]", u.Name, name), a1, fs, func(t string) string {
		return e.fieldByte(base, f, f.Num, f.wireType(), v, t)
	}, where, "the bytes written for the field are Tag(num, wiretype) ++ the wire encoding of its value")
}

// packedHeader: after a packed block: tag + length prefix precede the payload
func (e *smEngine) packedHeader(u *Unit, base, end *State, g *smGroup, a1 string, where string) {
	c := e.c
	if len(g.fields) != 1 {
		return
	}
	f := e.ms.field(g.fields[0])
	if f == nil || !f.Rep || !f.Packed || f.IsMap {
		return
	}
	lv, ok := c.loadField(base, e.x, f.GoName).(ListV)
	if !ok {
		return
	}
	si := e.listSuf(base, f, lv)
	total := si.at("0")
	tb := tagBytes(f.Num, 2)
	tl := fmt.Sprint(len(tb))
	n := fmt.Sprintf("(ite (> %s 0) (+ %s (VarintLenI %s)) 0)", lv.Len, tl, total)
	e.contentObl(end, fmt.Sprintf("%s/%s/content[packed header]", u.Name, f.GoName), a1, n, func(t string) string {
		return fmt.Sprintf("(ite (< %s %s) %s (VarintByteI %s %s))", t, tl, byteOfConst(tb, t), total, sub(t, tl))
	}, where, "a packed field starts with Tag(num, bytes) and the minimal varint of the payload length")
}

// iterationContent: BodyObl for loops of repeated / map blocks of marshal
func (e *smEngine) iterationContent(loopName string, elemOf func(st *State) (Val, Val, bool), where string) func(c *Ctx, before, after *State, idx string) {
	return func(c *Ctx, before, after *State, idx string) {
		f := e.theField()
		if f == nil || e.closure != "marshal" {
			return
		}
		k, v, ok := elemOf(before)
		if !ok {
			return
		}
		// which carried variable moved: the block accumulator i (downwards) or a forward cursor (packed varints)
		var lo, n string
		i0, ok0 := before.env[e.accObj].(Scalar)
		i1, ok1 := after.env[e.accObj].(Scalar)
		if ok0 && ok1 && i0.T != i1.T {
			lo, n = i1.T, "(- "+i0.T+" "+i1.T+")"
		} else {
			for o, bv := range before.env {
				av, ok := after.env[o].(Scalar)
				b, ok2 := bv.(Scalar)
				if ok && ok2 && av.T != b.T && av.S.K == "int" && strings.HasPrefix(o.Name(), "j") && o != e.accObj {
					lo, n = b.T, "(- "+av.T+" "+b.T+")"
				}
			}
		}
		if lo == "" {
			return
		}
		name := fmt.Sprintf("%s/%s/content[element]", e.c.unit, loopName)
		switch {
		case f.IsMap:
			// three smaller obligations: header, key field, value field
			ks := payloadSize(c, before, f.Key, k)
			vs := payloadSize(c, before, f.Val, v)
			es := fmt.Sprintf("(+ 1 %s 1 %s)", ks, vs)
			tb := tagBytes(f.Num, 2)
			tl := fmt.Sprint(len(tb))
			hdr := "(+ " + tl + " (VarintLenI " + es + "))"
			e.contentObl(after, name+"[header]", lo, hdr, func(t string) string {
				return fmt.Sprintf("(ite (< %s %s) %s (VarintByteI %s %s))", t, tl, byteOfConst(tb, t), es, sub(t, tl))
			}, where, "a map entry starts with Tag(num, bytes) and the minimal varint of the entry length 1+|key|+1+|value|")
			e.contentObl(after, name+"[key]", "(+ "+lo+" "+hdr+")", "(+ 1 "+ks+")", func(t string) string {
				return e.fieldByte(before, f.Key, 1, f.Key.elemWireType(), k, t)
			}, where, "the key is always written as field 1 of the entry")
			e.contentObl(after, name+"[value]", "(+ "+lo+" "+hdr+" 1 "+ks+")", "(+ 1 "+vs+")", func(t string) string {
				return e.fieldByte(before, f.Val, 2, f.Val.elemWireType(), v, t)
			}, where, "the value is always written as field 2 of the entry")
			c.addObl(Obl{Name: name + "[length]", Kind: "content", Guard: after.guard, Goal: "(= " + n + " (+ " + hdr + " " + es + "))", Pos: where, Text: "the entry occupies header + 1 + |key| + 1 + |value| bytes"})
		case f.Packed:
			e.contentObl(after, name, lo, n, func(t string) string { return e.payloadByte(before, f, v, t) }, where, "one packed element is written as its bare wire encoding")
		default:
			e.contentObl(after, name, lo, n, func(t string) string { return e.fieldByte(before, f, f.Num, f.elemWireType(), v, t) }, where, "one element of an unpacked repeated field is written as Tag ++ wire encoding")
		}
	}
}

func (e *smEngine) mapEntryByte(st *State, f *FieldSchema, k, v Val, t string) string {
	c := e.c
	ks := payloadSize(c, st, f.Key, k)
	vs := payloadSize(c, st, f.Val, v)
	es := fmt.Sprintf("(+ 1 %s 1 %s)", ks, vs)
	tb := tagBytes(f.Num, 2)
	tl := fmt.Sprint(len(tb))
	vl := "(VarintLenI " + es + ")"
	hdr := "(+ " + tl + " " + vl + ")"
	keyEnd := "(+ " + hdr + " 1 " + ks + ")"
	kb := e.fieldByte(st, f.Key, 1, f.Key.elemWireType(), k, sub(t, hdr))
	vb := e.fieldByte(st, f.Val, 2, f.Val.elemWireType(), v, sub(t, keyEnd))
	return fmt.Sprintf("(ite (< %s %s) %s (ite (< %s %s) (VarintByteI %s %s) (ite (< %s %s) %s %s)))", t, tl, byteOfConst(tb, t), t, hdr, es, sub(t, tl), t, keyEnd, kb, vb)
}

// legacyOrder: marshal fills its buffer from the back, so its blocks must appear in descending LegacyRank:
// unknown fields first, then oneofs in reverse declaration order, then ordinary fields in descending field number.
func (e *smEngine) legacyOrderGround(u *Unit, groups []smGroup) {
	rank := func(g smGroup) (int, bool) {
		if len(g.fields) != 1 {
			return 0, false
		}
		n := g.fields[0]
		if n == "unknownFields" {
			return 1 << 40, true
		}
		if oo := e.ms.oneof(n); oo != nil {
			for i, o := range e.ms.Oneofs {
				if o == oo {
					return 1<<32 + i, true
				}
			}
		}
		if f := e.ms.field(n); f != nil {
			return f.Num, true
		}
		return 0, false
	}
	ok := true
	prev := 1 << 41
	var seq []string
	for _, g := range groups {
		r, known := rank(g)
		if !known {
			continue
		}
		seq = append(seq, strings.Join(g.fields, "+"))
		if r >= prev {
			ok = false
		}
		prev = r
	}
	u.Grounds = append(u.Grounds, Ground{Name: u.Name + "/order[descending LegacyRank in the back-filled buffer]", OK: ok,
		Text: "marshal's blocks run: unknown fields, oneofs in reverse declaration order, ordinary fields in descending field number — i.e. the output is in ascending field-number order, then oneofs in declaration order, then unknown fields", Detail: strings.Join(seq, " ")})
}
