package main

// Statements, control flow, loops.

import (
	"fmt"
	"go/ast"
	"go/printer"
	"go/token"
	"go/types"
	"math/big"
	"sort"
	"strings"
)

type Flow struct {
	next      *State
	alts      []*State // un-merged alternative continuations (after a wide switch); next is nil when set
	brk, cont []*State
}

// nexts: the continuation states of a flow, un-merged
func (f Flow) nexts() []*State {
	if f.alts != nil {
		return f.alts
	}
	if f.next != nil {
		return []*State{f.next}
	}
	return nil
}

// one: the single merged continuation
func (c *Ctx) one(f Flow) *State {
	if f.alts != nil {
		return c.mergeAll(f.alts)
	}
	return f.next
}

const maxAlts = 400

// execBlock keeps the outcomes of a wide switch apart for the rest of the block, so that obligations are asserted
// per case and never over the merged post-switch state (DESIGN.md §12 lesson xi).
func (c *Ctx) execBlock(list []ast.Stmt, st *State) Flow {
	cur := []*State{st}
	var out Flow
	for _, s := range list {
		var nxt []*State
		saveLoopN := c.loopN
		endLoopN := c.loopN
		for _, cs := range cur {
			if cs == nil || cs.guard == "false" {
				continue
			}
			c.loopN = saveLoopN // every alternative sees the same loop ordinals
			f := c.exec(s, cs)
			endLoopN = c.loopN
			nxt = append(nxt, f.nexts()...)
			out.brk = append(out.brk, f.brk...)
			out.cont = append(out.cont, f.cont...)
		}
		c.loopN = endLoopN
		if len(nxt) > maxAlts {
			nxt = []*State{c.mergeAll(nxt)}
		}
		cur = nxt
		if len(cur) == 0 {
			break
		}
	}
	switch len(cur) {
	case 0:
	case 1:
		out.next = cur[0]
	default:
		out.alts = cur
	}
	return out
}

func (c *Ctx) boxedOf(e ast.Expr, st *State) (PtrV, bool) {
	if id, ok := e.(*ast.Ident); ok {
		if bx, ok := st.env[c.objOf(id)].(boxed); ok {
			return bx.P, true
		}
	}
	return PtrV{}, false
}

func (c *Ctx) assignTo(lhs ast.Expr, v Val, st *State, define bool) {
	switch l := lhs.(type) {
	case *ast.ParenExpr:
		c.assignTo(l.X, v, st, define)
	case *ast.Ident:
		if l.Name == "_" {
			return
		}
		var obj types.Object
		if define {
			obj = c.info.Defs[l]
		}
		if obj == nil {
			obj = c.info.Uses[l]
		}
		if bx, isB := st.env[obj].(boxed); isB && !define {
			if sv, ok := v.(StructV); ok {
				c.storeStruct(st, bx.P, sv)
				return
			}
		}
		// normalise typed nil / literals to the variable's type
		if e, isE := v.(ErrV); isE && e.T == "0" {
			v = c.zeroValue(obj.Type())
		}
		if sc, isS := v.(Scalar); isS && sc.S.K == "i2b" {
			if ts, ok := c.sortOf(obj.Type()); ok && ts.K == "int" {
				v = Scalar{sc.T, ts}
			}
		}
		if fv, isF := v.(FuncV); isF && fv.Lit != nil {
			if c.funcLits == nil {
				c.funcLits = map[types.Object]*ast.FuncLit{}
			}
			c.funcLits[obj] = fv.Lit
		}
		st.env[obj] = v
	case *ast.IndexExpr:
		bv := c.eval(l.X, st)
		switch b := bv.(type) {
		case OpaqueV:
			c.eval(l.Index, st)
			c.abstracted("store into unmodelled container")
		case SliceV:
			i := c.eval(l.Index, st).(Scalar)
			c.boundsIndex(st, l.Pos(), i.T, b.Len)
			if b.Region == "" {
				c.fail(l.Pos(), "write to an immutable byte sequence")
			}
			arr := c.sliceArr(st, b)
			sv := v.(Scalar)
			st.heap[b.Region] = c.defRaw("A", c.byteArrSort(), fmt.Sprintf("(store %s %s %s)", arr, c.addIdx(b.Off, i.T), sv.T))
			c.stores = append(c.stores, StoreRec{Key: b.Region, Ref: c.addIdx(b.Off, i.T), Guard: st.guard, Pos: c.pos(l.Pos())})
		case ListV:
			i := c.eval(l.Index, st).(Scalar)
			c.boundsIndex(st, l.Pos(), i.T, b.Len)
			nl := ListV{Len: b.Len, Elems: c.defRaw("E", c.listArrSort(b.ElemT), fmt.Sprintf("(store %s %s %s)", b.Elems, i.T, c.idOfValue(st, v))), Nil: b.Nil, ElemT: b.ElemT, Prov: b.Prov}
			// Go slices alias their backing array: write back to the place the slice came from
			c.assignTo(l.X, nl, st, false)
		case MapV:
			c.oblige(st, "safe.mapwrite", c.pos(l.Pos()), not(b.Nil), "assignment to entry in nil map")
			k := c.eval(l.Index, st)
			c.noteElemStore(st, types.ExprString(l.X), k, c.pos(l.Pos()), "map key")
			c.noteElemStore(st, types.ExprString(l.X), v, c.pos(l.Pos()), "map value")
			nm := c.mapStore(st, b, k, v)
			c.mapEvents = append(c.mapEvents, mapEvent{Old: b, New: nm, K: k, V: v, Guard: st.guard, Pos: l.Pos()})
			c.assignTo(l.X, nm, st, false)
		default:
			c.fail(l.Pos(), "index assignment on %T", bv)
		}
	case *ast.SelectorExpr:
		if p, ok := c.boxedOf(l.X, st); ok {
			c.storeField(st, p, l.Sel.Name, v, c.pos(l.Pos()))
			return
		}
		base := c.eval(l.X, st)
		switch b := base.(type) {
		case StructV:
			nf := make(map[string]Val, len(b.F))
			for k, x := range b.F {
				nf[k] = x
			}
			nf[l.Sel.Name] = v
			c.assignTo(l.X, StructV{F: nf, T: b.T}, st, false)
		case PtrV:
			if b.Struct() == nil {
				c.abstracted("store through unmodelled pointer")
				return
			}
			c.nilCheck(st, b, l.Pos())
			c.storeField(st, b, l.Sel.Name, c.coerce(v, fieldType(b.Struct(), l.Sel.Name)), c.pos(l.Pos()))
		case OpaqueV:
			c.abstracted("store into field of unmodelled value")
		default:
			c.fail(l.Pos(), "field assignment on %T", base)
		}
	case *ast.StarExpr:
		p := c.eval(l.X, st)
		if pv, ok := p.(PtrV); ok {
			c.nilCheck(st, pv, l.Pos())
			if pv.Cell != "" {
				c.storeCell(st, pv, v, c.pos(l.Pos()))
				return
			}
			if sv, ok := v.(StructV); ok && pv.Struct() != nil {
				for _, f := range sortedKeys(sv.F) {
					c.stores = append(c.stores, StoreRec{Key: fieldBase(pv, f), Ref: pv.Ref, Guard: st.guard, Pos: c.pos(l.Pos())})
				}
				c.storeStruct(st, pv, sv)
				return
			}
		}
		c.abstracted("store through unmodelled pointer")
	default:
		c.fail(lhs.Pos(), "unsupported assignment target %T", lhs)
	}
}

// coerce adapts nil-ish and interface-boxing assignments to the static type of the destination
func (c *Ctx) coerce(v Val, t types.Type) Val {
	if t == nil {
		return v
	}
	if e, isE := v.(ErrV); isE && e.T == "0" {
		return c.zeroValue(t)
	}
	if p, isP := v.(PtrV); isP {
		if _, isIface := t.Underlying().(*types.Interface); isIface && p.Named != nil {
			return IfaceV{Tag: fmt.Sprint(c.typeTag(p.Named)), Ref: p.Ref, T: t}
		}
	}
	return v
}

func (c *Ctx) mapStore(st *State, m MapV, k, v Val) MapV {
	// abstract update: a new map identity whose length is old or old+1; lookups of k yield v
	c.declareFun("MapHas", "(Int Int) Bool")
	c.declareFun("MapGet", "(Int Int) Int")
	nid := c.freshRaw("mapid", "Int")
	kid := c.keyID(st, k)
	ln := c.fresh("mlen", c.idx())
	had := "(MapHas " + m.Id + " " + kid + ")"
	c.assume("(= " + ln + " (ite " + had + " " + m.Len + " " + c.addIdx(m.Len, c.ilit(1)) + "))")
	c.assume("(MapHas " + nid + " " + kid + ")")
	if _, ok := c.sortOf(m.ValT); !ok {
		c.assume("(= (MapGet " + nid + " " + kid + ") " + c.idOfValue(st, v) + ")")
	}
	return MapV{Len: ln, Nil: "false", Keys: c.freshRaw("keys", c.listArrSort(m.KeyT)), Vals: c.freshRaw("vals", c.listArrSort(m.ValT)), KeyT: m.KeyT, ValT: m.ValT, Id: nid}
}

var opAssign = map[token.Token]token.Token{token.ADD_ASSIGN: token.ADD, token.SUB_ASSIGN: token.SUB, token.OR_ASSIGN: token.OR,
	token.SHR_ASSIGN: token.SHR, token.SHL_ASSIGN: token.SHL, token.AND_ASSIGN: token.AND, token.XOR_ASSIGN: token.XOR,
	token.MUL_ASSIGN: token.MUL, token.QUO_ASSIGN: token.QUO, token.REM_ASSIGN: token.REM, token.AND_NOT_ASSIGN: token.AND_NOT}

func (c *Ctx) stmtText(s ast.Stmt) string {
	var sb strings.Builder
	printer.Fprint(&sb, c.fset, s)
	return sb.String()
}

// exec runs a statement; inline assertions of the contract (assert … at `text`) are attached to simple statements
func (c *Ctx) exec(s ast.Stmt, st *State) Flow {
	if c.spec == nil || len(c.spec.Asserts) == 0 || c.depth > 0 {
		return c.exec1(s, st)
	}
	var hits []*AssertClause
	before := false
	switch s.(type) {
	case *ast.BranchStmt, *ast.ReturnStmt, *ast.AssignStmt, *ast.ExprStmt, *ast.IncDecStmt, *ast.DeclStmt:
		switch s.(type) {
		case *ast.BranchStmt, *ast.ReturnStmt:
			before = true
		}
		txt := c.stmtText(s)
		for _, a := range c.spec.Asserts {
			if strings.Contains(txt, a.At) {
				hits = append(hits, a)
			}
		}
	}
	if sw, ok := s.(*ast.SwitchStmt); ok && sw.Tag != nil && sw.Init == nil {
		// `switch <tag>`: the assertion is about the state in which the tag is evaluated
		before = true
		txt := "switch " + types.ExprString(sw.Tag)
		for _, a := range c.spec.Asserts {
			if strings.Contains(txt, a.At) {
				hits = append(hits, a)
			}
		}
	}
	emit := func(at *State) {
		for _, a := range hits {
			c.assertSeen[a] = true
			g := c.specBool(&a.Clause, &SpecEnv{c: c, st: at, entry: c.entry, at: s.End()})
			c.addObl(Obl{Name: fmt.Sprintf("%s/assert[%s]", c.unit, a.Label), Kind: "assert", Guard: at.guard, Goal: g, Pos: c.pos(s.Pos()), Text: a.Text + "  (at `" + a.At + "`)"})
		}
	}
	if before && len(hits) > 0 {
		emit(st)
	}
	f := c.exec1(s, st)
	if !before && len(hits) > 0 {
		if nx := c.one(f); nx != nil {
			emit(nx)
			return Flow{next: nx, brk: f.brk, cont: f.cont}
		}
	}
	return f
}

func (c *Ctx) exec1(s ast.Stmt, st *State) Flow {
	c.curPos = s.Pos()
	if c.stmtHook != nil {
		if f, ok := c.stmtHook(c, s, st); ok {
			return f
		}
	}
	switch x := s.(type) {
	case *ast.BlockStmt:
		return c.execBlock(x.List, st)
	case *ast.EmptyStmt:
		return Flow{next: st}
	case *ast.LabeledStmt:
		return c.exec(x.Stmt, st)
	case *ast.ExprStmt:
		if call, ok := x.X.(*ast.CallExpr); ok {
			if id, ok := call.Fun.(*ast.Ident); ok && id.Name == "panic" && c.info.Uses[id] == types.Universe.Lookup("panic") {
				msg := ""
				if len(call.Args) == 1 {
					msg = types.ExprString(call.Args[0])
					c.evalForEffects(call.Args[0], st)
				}
				c.panics = append(c.panics, &PanicRec{St: st, Pos: x.Pos(), Msg: msg})
				return Flow{}
			}
			c.call(call, st)
			if st.guard == "false" {
				return Flow{}
			}
			return Flow{next: st}
		}
		c.eval(x.X, st)
		return Flow{next: st}
	case *ast.DeclStmt:
		gd := x.Decl.(*ast.GenDecl)
		for _, sp := range gd.Specs {
			vs, ok := sp.(*ast.ValueSpec)
			if !ok {
				continue
			}
			if len(vs.Values) == 1 && len(vs.Names) > 1 {
				vals := c.evalTuple(vs.Values[0], st, len(vs.Names))
				for i, nm := range vs.Names {
					if nm.Name != "_" {
						st.env[c.info.Defs[nm]] = vals[i]
					}
				}
				continue
			}
			for i, nm := range vs.Names {
				obj := c.info.Defs[nm]
				if obj == nil {
					continue
				}
				if len(vs.Values) > i {
					st.env[obj] = c.coerce(c.eval(vs.Values[i], st), obj.Type())
					continue
				}
				st.env[obj] = c.zeroValue(obj.Type())
			}
		}
		return Flow{next: st}
	case *ast.AssignStmt:
		return c.execAssign(x, st)
	case *ast.IncDecStmt:
		a := c.eval(x.X, st).(Scalar)
		op := token.ADD
		if x.Tok == token.DEC {
			op = token.SUB
		}
		one := Scalar{c.lit(big.NewInt(1), a.S), a.S}
		c.assignTo(x.X, c.arith(op, a, one, st, x.Pos()), st, false)
		return Flow{next: st}
	case *ast.ReturnStmt:
		var vals []Val
		for _, r := range x.Results {
			v := c.eval(r, st)
			if vs, ok := v.(TupleV); ok {
				vals = append(vals, vs...)
			} else {
				vals = append(vals, v)
			}
		}
		for i := range vals {
			if i < len(c.resTypes) {
				vals[i] = c.coerce(vals[i], c.resTypes[i])
			}
		}
		if len(x.Results) == 0 && c.curResults != nil {
			for _, o := range c.curResults {
				vals = append(vals, st.env[o])
			}
		}
		c.rets = append(c.rets, &RetState{St: st, Vals: vals, Pos: x.Pos()})
		return Flow{}
	case *ast.BranchStmt:
		if x.Label != nil {
			c.fail(x.Pos(), "labelled %s", x.Tok)
		}
		switch x.Tok {
		case token.BREAK:
			return Flow{brk: []*State{st}}
		case token.CONTINUE:
			return Flow{cont: []*State{st}}
		}
	case *ast.IfStmt:
		if x.Init != nil {
			f := c.exec(x.Init, st)
			st = c.one(f)
			if st == nil {
				return Flow{}
			}
		}
		cond := c.eval(x.Cond, st).(Scalar)
		if st.guard == "false" {
			return Flow{}
		}
		ct := c.defRaw("c", "Bool", cond.T)
		thenSt := c.withGuard(st, ct)
		elseSt := c.withGuard(st, not(ct))
		tf := c.exec(x.Body, thenSt)
		ef := Flow{next: elseSt}
		if x.Else != nil {
			ef = c.exec(x.Else, elseSt)
		}
		return Flow{next: c.merge(c.one(tf), c.one(ef)), brk: append(tf.brk, ef.brk...), cont: append(tf.cont, ef.cont...)}
	case *ast.SwitchStmt:
		return c.execSwitch(x, st)
	case *ast.TypeSwitchStmt:
		return c.execTypeSwitch(x, st)
	case *ast.ForStmt:
		return c.execFor(x, st)
	case *ast.RangeStmt:
		return c.execRange(x, st)
	}
	c.fail(s.Pos(), "unsupported statement %T", s)
	return Flow{}
}

func (c *Ctx) evalForEffects(e ast.Expr, st *State) {
	defer func() {
		if r := recover(); r != nil {
			if _, ok := r.(unsupported); !ok {
				panic(r)
			}
		}
	}()
	c.eval(e, st)
}

func (c *Ctx) evalTuple(e ast.Expr, st *State, n int) []Val {
	switch x := e.(type) {
	case *ast.ParenExpr:
		return c.evalTuple(x.X, st, n)
	case *ast.TypeAssertExpr:
		if n == 2 {
			return c.typeAssert(x, st, true)
		}
	case *ast.IndexExpr:
		if n == 2 {
			if m, ok := c.eval(x.X, st).(MapV); ok {
				return c.mapLookup(st, m, c.eval(x.Index, st), true)
			}
			c.eval(x.Index, st)
			c.abstracted("comma-ok lookup in unmodelled map")
			return []Val{c.symbolic(st, "mv", c.info.TypeOf(x)), Scalar{c.freshRaw("ok", "Bool"), boolSort}}
		}
	}
	v := c.eval(e, st)
	if t, ok := v.(TupleV); ok {
		return t
	}
	return []Val{v}
}

func (c *Ctx) execAssign(x *ast.AssignStmt, st *State) Flow {
	define := x.Tok == token.DEFINE
	if define || x.Tok == token.ASSIGN {
		if len(x.Lhs) == len(x.Rhs) {
			vals := make([]Val, len(x.Rhs))
			for i, r := range x.Rhs {
				vals[i] = c.eval(r, st)
				if st.guard == "false" {
					return Flow{}
				}
			}
			for i, l := range x.Lhs {
				v := vals[i]
				if !define || c.info.Defs[identOf(l)] == nil {
					v = c.coerce(v, c.info.TypeOf(l))
				} else if id := identOf(l); id != nil {
					v = c.coerce(v, c.info.Defs[id].Type())
				}
				c.assignTo(l, v, st, define)
			}
			return Flow{next: st}
		}
		vals := c.evalTuple(x.Rhs[0], st, len(x.Lhs))
		if st.guard == "false" {
			return Flow{}
		}
		for i, l := range x.Lhs {
			c.assignTo(l, vals[i], st, define)
		}
		return Flow{next: st}
	}
	a, ok1 := c.eval(x.Lhs[0], st).(Scalar)
	b, ok2 := c.eval(x.Rhs[0], st).(Scalar)
	if !ok1 || !ok2 {
		// string += etc.
		c.abstracted("op-assign on non-scalar")
		c.assignTo(x.Lhs[0], c.symbolic(st, "opassign", c.info.TypeOf(x.Lhs[0])), st, false)
		return Flow{next: st}
	}
	if b.S.K == "i2b" && a.S.K == "int" {
		b = Scalar{b.T, a.S}
	}
	r := c.arith(opAssign[x.Tok], a, b, st, x.Pos())
	c.assignTo(x.Lhs[0], r, st, false)
	return Flow{next: st}
}

func identOf(e ast.Expr) *ast.Ident {
	id, _ := e.(*ast.Ident)
	return id
}

func (c *Ctx) execSwitch(x *ast.SwitchStmt, st *State) Flow {
	if x.Init != nil {
		st = c.one(c.exec(x.Init, st))
		if st == nil {
			return Flow{}
		}
	}
	var tag Val
	if x.Tag != nil {
		tag = c.eval(x.Tag, st)
	}
	var outs, conts []*State
	noneMatched := "true"
	var deflt *ast.CaseClause
	for _, cl := range x.Body.List {
		cc := cl.(*ast.CaseClause)
		if cc.List == nil {
			deflt = cc
			continue
		}
		m := "false"
		for _, e := range cc.List {
			var t string
			if tag == nil {
				t = c.eval(e, st).(Scalar).T
			} else {
				t = c.valEq(tag, c.eval(e, st), st)
			}
			m = or(m, t)
		}
		m = c.defRaw("case", "Bool", m)
		cs := c.withGuard(st, and(noneMatched, m))
		c.caseEnter(cc, cs)
		var csnap *State
		if c.onCaseExit != nil && c.caseExitAll {
			csnap = cs.clone()
		}
		f := c.execBlock(cc.Body, cs)
		if csnap != nil {
			if end := c.one(f); end != nil {
				c.onCaseExit(c, cc, csnap, end)
				f = Flow{next: end, brk: f.brk, cont: f.cont}
			}
		}
		outs = append(outs, c.one(f))
		outs = append(outs, f.brk...)
		conts = append(conts, f.cont...)
		noneMatched = c.defRaw("nomatch", "Bool", and(noneMatched, not(m)))
	}
	ds := c.withGuard(st, noneMatched)
	if deflt != nil {
		c.caseEnter(deflt, ds)
		var snap *State
		if c.onCaseExit != nil {
			snap = ds.clone()
		}
		f := c.execBlock(deflt.Body, ds)
		if c.onCaseExit != nil {
			if end := c.one(f); end != nil {
				c.onCaseExit(c, deflt, snap, end)
				f = Flow{next: end, brk: f.brk, cont: f.cont}
			}
		}
		outs = append(outs, c.one(f))
		outs = append(outs, f.brk...)
		conts = append(conts, f.cont...)
	} else {
		outs = append(outs, ds)
	}
	if len(x.Body.List) >= 3 {
		var alts []*State
		for _, o := range outs {
			if o != nil && o.guard != "false" {
				alts = append(alts, o)
			}
		}
		if len(alts) > 1 {
			return Flow{alts: alts, cont: conts}
		}
	}
	return Flow{next: c.mergeAll(outs), cont: conts}
}

// caseEnter is a notification point for family engines (per-case obligations)
func (c *Ctx) caseEnter(cc *ast.CaseClause, st *State) {
	if c.onCase != nil {
		c.onCase(c, cc, st)
	}
}

func (c *Ctx) valEq(a, b Val, st *State) string {
	switch x := a.(type) {
	case Scalar:
		if y, ok := b.(Scalar); ok {
			return "(= " + x.T + " " + y.T + ")"
		}
		if x.S.K == "str" {
			// interned symbolic name against a string constant
			if id, ok := c.strID(b); ok {
				return fmt.Sprintf("(= %s %d)", x.T, id)
			}
		}
	case SliceV:
		if y, ok := b.(SliceV); ok {
			return c.strCompare(token.EQL, x, y, st).(Scalar).T
		}
	case ErrV:
		if y, ok := b.(ErrV); ok {
			return "(= " + x.T + " " + y.T + ")"
		}
	}
	c.abstracted("switch on unmodelled value")
	return c.freshRaw("caseeq", "Bool")
}

func (c *Ctx) execTypeSwitch(x *ast.TypeSwitchStmt, st *State) Flow {
	if x.Init != nil {
		st = c.one(c.exec(x.Init, st))
	}
	var ta *ast.TypeAssertExpr
	switch a := x.Assign.(type) {
	case *ast.AssignStmt:
		ta = a.Rhs[0].(*ast.TypeAssertExpr)
	case *ast.ExprStmt:
		ta = a.X.(*ast.TypeAssertExpr)
	}
	v := c.eval(ta.X, st)
	iv, isIface := v.(IfaceV)
	if e, isE := v.(ErrV); isE {
		iv, isIface = IfaceV{Tag: e.T, Ref: "0"}, true
	}
	var outs, conts []*State
	none := "true"
	var deflt *ast.CaseClause
	for _, cl := range x.Body.List {
		cc := cl.(*ast.CaseClause)
		if cc.List == nil {
			deflt = cc
			continue
		}
		m := "false"
		var bind Val
		for _, te := range cc.List {
			if id, ok := te.(*ast.Ident); ok && id.Name == "nil" {
				if isIface {
					m = or(m, "(= "+iv.Tag+" 0)")
				} else {
					m = or(m, c.freshRaw("tsw", "Bool"))
				}
				continue
			}
			tt := c.info.TypeOf(te)
			if pt, ok := tt.Underlying().(*types.Pointer); ok && isIface {
				if nt, ok := pt.Elem().(*types.Named); ok {
					m = or(m, fmt.Sprintf("(= %s %d)", iv.Tag, c.typeTag(nt)))
					if len(cc.List) == 1 {
						bind = PtrV{Ref: iv.Ref, Named: nt}
					}
					continue
				}
			}
			c.abstracted("type switch case on unmodelled type")
			m = or(m, c.freshRaw("tsw", "Bool"))
			if len(cc.List) == 1 {
				bind = c.symbolic(st, "tsv", tt)
			}
		}
		m = c.defRaw("tcase", "Bool", m)
		cs := c.withGuard(st, and(none, m))
		if obj := c.info.Implicits[cc]; obj != nil {
			if bind == nil {
				bind = v
			}
			cs.env[obj] = bind
		}
		f := c.execBlock(cc.Body, cs)
		outs = append(outs, c.one(f))
		outs = append(outs, f.brk...)
		conts = append(conts, f.cont...)
		none = c.defRaw("nomatch", "Bool", and(none, not(m)))
	}
	ds := c.withGuard(st, none)
	if deflt != nil {
		if obj := c.info.Implicits[deflt]; obj != nil {
			ds.env[obj] = v
		}
		f := c.execBlock(deflt.Body, ds)
		outs = append(outs, c.one(f))
		outs = append(outs, f.brk...)
		conts = append(conts, f.cont...)
	} else {
		outs = append(outs, ds)
	}
	return Flow{next: c.mergeAll(outs), cont: conts}
}

// ---------- loops ----------

// modSet: what a loop body may change, syntactically
type modSet struct {
	vars    map[types.Object]bool
	fields  map[string]bool // struct field names assigned through selectors
	regions map[types.Object]bool
	wholes  map[types.Object]bool
	calls   bool
	cells   bool // stores through pointers to slice / map variables (list and map wrappers)
}

func (c *Ctx) modsOf(nodes ...ast.Node) modSet {
	return c.modsOfV(map[*ast.FuncLit]bool{}, nodes...)
}

func (c *Ctx) modsOfV(visited map[*ast.FuncLit]bool, nodes ...ast.Node) modSet {
	m := modSet{vars: map[types.Object]bool{}, fields: map[string]bool{}, regions: map[types.Object]bool{}, wholes: map[types.Object]bool{}}
	var lhs func(e ast.Expr)
	lhs = func(e ast.Expr) {
		switch l := e.(type) {
		case *ast.Ident:
			if o := c.objOf(l); o != nil {
				m.vars[o] = true
				m.wholes[o] = true
			}
		case *ast.ParenExpr:
			lhs(l.X)
		case *ast.SelectorExpr:
			m.fields[l.Sel.Name] = true
			if id, ok := l.X.(*ast.Ident); ok {
				if o := c.objOf(id); o != nil {
					if _, isStruct := o.Type().Underlying().(*types.Struct); isStruct {
						m.vars[o] = true // struct-valued locals
					}
				}
			} else {
				lhs(l.X)
			}
		case *ast.IndexExpr:
			if id, ok := l.X.(*ast.Ident); ok {
				if o := c.objOf(id); o != nil {
					m.regions[o] = true
					m.vars[o] = true
				}
			} else {
				lhs(l.X)
			}
		case *ast.StarExpr:
			if pt, ok := c.info.TypeOf(l.X).Underlying().(*types.Pointer); ok {
				if _, isSlice := pt.Elem().Underlying().(*types.Slice); isSlice || isMapType(pt.Elem()) {
					m.cells = true
					break
				}
			}
			m.calls = true
		}
	}
	for _, n := range nodes {
		if n == nil {
			continue
		}
		ast.Inspect(n, func(n ast.Node) bool {
			switch x := n.(type) {
			case *ast.AssignStmt:
				for _, l := range x.Lhs {
					lhs(l)
				}
			case *ast.IncDecStmt:
				lhs(x.X)
			case *ast.RangeStmt:
				if x.Key != nil {
					lhs(x.Key)
				}
				if x.Value != nil {
					lhs(x.Value)
				}
			case *ast.CallExpr:
				if id, ok := x.Fun.(*ast.Ident); ok {
					if lit := c.funcLits[c.objOf(id)]; lit != nil && !visited[lit] {
						visited[lit] = true
						sub := c.modsOfV(visited, lit.Body)
						for o := range sub.vars {
							m.vars[o] = true
						}
						for o := range sub.wholes {
							m.wholes[o] = true
						}
						for o := range sub.regions {
							m.regions[o] = true
						}
						for f := range sub.fields {
							m.fields[f] = true
						}
						m.cells = m.cells || sub.cells
					}
				}
				// byte-slice arguments may be written by the callee — unless its contract says otherwise
				if tv, ok := c.info.Types[x.Fun]; ok && tv.IsType() {
					return true // a conversion writes nothing
				}
				if id, ok := x.Fun.(*ast.Ident); ok {
					if _, isB := c.info.Uses[id].(*types.Builtin); isB {
						if id.Name == "copy" && len(x.Args) == 2 {
							// copy writes its destination only
							d := x.Args[0]
							if se, ok := d.(*ast.SliceExpr); ok {
								d = se.X
							}
							if did, ok := d.(*ast.Ident); ok {
								if o := c.objOf(did); o != nil && isByteSlice(o.Type()) {
									m.regions[o] = true
								}
							}
						}
						return true
					}
				}
				if fn := c.calleeFunc(x); fn != nil {
					k := funcKey(fn)
					if sp := c.prog.contracts.Funcs[k]; sp != nil && len(sp.Assigns) == 0 {
						return true
					}
					if k == "google.golang.org/protobuf/proto.UnmarshalOptions.Unmarshal" || (fn.Pkg() != nil && purePkgs[fn.Pkg().Path()]) {
						return true // reads its input bytes only (trusted)
					}
				}
				for _, a := range x.Args {
					if id, ok := a.(*ast.Ident); ok {
						if o := c.objOf(id); o != nil && isByteSlice(o.Type()) {
							m.regions[o] = true
						}
					}
					if se, ok := a.(*ast.SliceExpr); ok {
						if id, ok := se.X.(*ast.Ident); ok {
							if o := c.objOf(id); o != nil && isByteSlice(o.Type()) {
								m.regions[o] = true
							}
						}
					}
				}
			}
			return true
		})
	}
	return m
}

func (c *Ctx) havocVal(name string, v Val, t types.Type, st *State) Val {
	switch x := v.(type) {
	case Scalar:
		if x.S.K == "str" {
			return v
		}
		return Scalar{c.fresh(name, x.S), x.S}
	case ErrV:
		e := c.freshRaw(name, "Int")
		c.assume("(>= " + e + " 0)")
		return ErrV{e}
	case PtrV:
		r := c.freshRaw(name, "Int")
		return PtrV{Ref: r, Named: x.Named, Cell: x.Cell, CellT: x.CellT}
	case SliceV:
		ln, cp := c.freshLen(name+"_len"), c.freshLen(name+"_cap")
		c.assume(c.leIdx(ln, cp))
		off := c.fresh(name+"_off", c.idx())
		c.assume(c.lenBounds(off))
		n := SliceV{Region: x.Region, Off: off, Len: ln, Cap: cp, Nil: c.freshRaw(name+"_nil", "Bool"), Prov: c.openProv(x.Prov), IsStr: x.IsStr}
		if x.Region == "" {
			n.Arr = c.freshRaw(name+"_arr", c.byteArrSort())
		}
		return n
	case ListV:
		return ListV{Len: c.freshLen(name + "_len"), Elems: c.freshRaw(name+"_elems", c.listArrSort(x.ElemT)), Nil: c.freshRaw(name+"_nil", "Bool"), ElemT: x.ElemT, Prov: x.Prov}
	case MapV:
		m := c.symbolicMap(name, types.NewMap(x.KeyT, x.ValT))
		return m
	case StructV:
		n := StructV{F: map[string]Val{}, T: x.T}
		for k, fv := range x.F {
			n.F[k] = c.havocVal(name+"_"+k, fv, nil, st)
		}
		return n
	case IfaceV:
		tag, ref := c.freshRaw(name+"_tag", "Int"), c.freshRaw(name+"_ref", "Int")
		c.assume(and("(>= "+tag+" 0)", implies("(= "+tag+" 0)", "(= "+ref+" 0)")))
		return IfaceV{Tag: tag, Ref: ref, T: x.T}
	}
	return v
}

func (c *Ctx) havoc(st *State, m modSet) *State {
	h := st.clone()
	objs := make([]types.Object, 0, len(m.vars))
	for o := range m.vars {
		objs = append(objs, o)
	}
	sort.Slice(objs, func(i, j int) bool { return objs[i].Pos() < objs[j].Pos() })
	for _, o := range objs {
		v, ok := h.env[o]
		if !ok {
			continue
		}
		if m.regions[o] {
			if sv, isS := v.(SliceV); isS && sv.Region != "" {
				h.heap[sv.Region] = c.freshRaw("arr_h", c.byteArrSort())
				if !c.assignedWhole(m, o) {
					continue
				}
			}
		}
		if bx, isB := v.(boxed); isB {
			for k := range h.heap {
				if strings.HasPrefix(k, "fld:"+bx.P.TypeName()+".") {
					h.heap[k] = c.freshRaw("H_h", c.heapSorts[k])
				}
			}
			continue
		}
		h.env[o] = c.havocVal(o.Name(), v, o.Type(), h)
	}
	for o := range m.regions {
		if v, ok := h.env[o].(SliceV); ok && v.Region != "" && !m.vars[o] {
			h.heap[v.Region] = c.freshRaw("arr_h", c.byteArrSort())
		}
	}
	keys := sortedKeys(h.heap)
	for _, k := range keys {
		if strings.HasPrefix(k, "cell:") && (m.cells || m.calls) {
			h.heap[k] = c.freshRaw("H_h", c.heapSorts[k])
			continue
		}
		if !strings.HasPrefix(k, "fld:") {
			continue
		}
		rest := k[4:]
		dot := strings.Index(rest, ".")
		if dot < 0 {
			continue
		}
		fname := rest[dot+1:]
		if i := strings.Index(fname, "."); i >= 0 {
			fname = fname[:i]
		}
		if m.fields[fname] || m.calls {
			h.heap[k] = c.freshRaw("H_h", c.heapSorts[k])
		}
	}
	return h
}

// assignedWhole: the variable itself (not only its elements) is assigned in the loop
func (c *Ctx) assignedWhole(m modSet, o types.Object) bool { return m.wholes != nil && m.wholes[o] }

// mapEvent: ghost record of one map assignment m[k] = v (family engines state "the final map is the initial one
// with exactly this entry stored" over these records)
type mapEvent struct {
	Old, New MapV
	K, V     Val
	Guard    string
	Pos      token.Pos
	Del      bool // delete(m, k)
}

// listAppend: ghost record of one append(list, elems…) call
type listAppend struct {
	Target string // source text of the list expression
	Guard  string
	Pos    token.Pos
}

type LoopSpec struct {
	Unroll    int
	Invs      []*Clause
	Decreases *Clause
	Increases *Clause
	Upto      *Clause
	InvFn     func(c *Ctx, st *State, idx string) string // family engines: invariant as SMT builder (idx = range index or "")
	DecFn     func(c *Ctx, before, after *State) string
	AxFn      func(c *Ctx, st *State, idx string) // extra facts to assume at the loop head (e.g. suffix-sum unfolding)
	Mods      []string                            // extra variable names to havoc
	// PostFn: summary of an unrolled loop. It is asserted on the real exit state, and execution continues from the
	// pre-loop state with the loop's mod-set havocked and the summary assumed (keeps later path conditions small).
	PostFn func(c *Ctx, before, after *State) string
	// BodyObl: extra per-iteration obligations (state at the start of the body, state at the back edge, range index)
	BodyObl func(c *Ctx, before, after *State, idx string)
	// ContinueIf: contract clauses that must hold at every back edge of the loop
	ContinueIf []*Clause
	// FailsOnlyIf: conditions over the state at the start of an iteration that must hold whenever the iteration
	// returns with a non-nil error (the last result): "an error is reported only for a locally malformed input"
	FailsOnlyIf []*Clause
	// EntryObl: extra obligations on the state in which the loop is entered (before any havoc)
	EntryObl func(c *Ctx, pre *State)
}

func (c *Ctx) loopSpec(ord int, loop ast.Stmt) *LoopSpec {
	if c.loopSpecFor != nil {
		if ls := c.loopSpecFor(c, ord, loop); ls != nil {
			return ls
		}
	}
	if c.spec != nil {
		if ls, ok := c.spec.Loops[ord]; ok {
			return ls
		}
	}
	return nil
}

func (c *Ctx) evalInv(ls *LoopSpec, st *State, idx string, at token.Pos) string {
	r := "true"
	if ls.InvFn != nil {
		r = and(r, ls.InvFn(c, st, idx))
	}
	for _, cl := range ls.Invs {
		r = and(r, c.specBool(cl, &SpecEnv{c: c, st: st, entry: c.entry, at: at, idx: idx}))
	}
	return r
}

// assumeInv assumes the loop invariant in a havocked state (no auxiliary definitions: see assumeSpec)
func (c *Ctx) assumeInv(ls *LoopSpec, st *State, idx string, at token.Pos, extra string) {
	save := c.noDef
	c.noDef = true
	t := c.evalInv(ls, st, idx, at)
	c.noDef = save
	c.assume(implies(st.guard, and(extra, t)))
}

func (c *Ctx) execFor(x *ast.ForStmt, st *State) Flow {
	c.loopN++
	ord := c.loopN
	key := fmt.Sprintf("%s/loop%d", c.unit, ord)
	if x.Init != nil {
		st = c.one(c.exec(x.Init, st))
		if st == nil {
			return Flow{}
		}
	}
	ls := c.loopSpec(ord, x)
	if ls == nil {
		c.fail(x.Pos(), "loop %d has no contract (unroll or invariant)", ord)
	}
	if ls.Unroll > 0 {
		if ls.PostFn == nil {
			return c.unrollFor(x, st, key, ls.Unroll)
		}
		before := st.clone()
		f := c.unrollFor(x, st, key, ls.Unroll)
		exit := c.one(f)
		if exit == nil {
			return f
		}
		c.addObl(Obl{Name: key + "/loop.post", Kind: "loop.post", Guard: exit.guard, Goal: ls.PostFn(c, before, exit), Pos: c.pos(x.Pos()), Text: "summary of the unrolled loop holds at its exit", CutGuard: before.guard, CutSyms: c.entrySymbols(before)})
		h := c.havoc(before, c.modsOf(x.Body, x.Post))
		c.assume(implies(h.guard, ls.PostFn(c, before, h)))
		return Flow{next: h}
	}
	// invariant cut
	if ls.EntryObl != nil {
		ls.EntryObl(c, st)
	}
	c.addObl(Obl{Name: key + "/loop.entry", Kind: "loop.entry", Guard: st.guard, Goal: c.evalInv(ls, st, "", x.Pos()), Pos: c.pos(x.Pos()), Text: "loop invariant holds on entry"})
	m := c.modsOf(x.Body, x.Post)
	c.addNamedMods(&m, ls.Mods, st)
	h := c.havoc(st, m)
	if ls.AxFn != nil {
		ls.AxFn(c, h, "")
	}
	c.assumeInv(ls, h, "", x.Pos(), "true")
	exit := (*State)(nil)
	body := h
	if x.Cond != nil {
		cond := c.eval(x.Cond, h).(Scalar)
		ct := c.defRaw("lc", "Bool", cond.T)
		exit = c.withGuard(h, not(ct))
		body = c.withGuard(h, ct)
	}
	before := body.clone()
	nrets := len(c.rets)
	f := c.exec(x.Body, body)
	for _, cl := range ls.FailsOnlyIf {
		for i, r := range c.rets[nrets:] {
			if len(r.Vals) == 0 {
				continue
			}
			ev, ok := r.Vals[len(r.Vals)-1].(ErrV)
			if !ok {
				continue
			}
			why := c.specBool(cl, &SpecEnv{c: c, st: before, entry: c.entry, at: x.Body.Lbrace})
			c.addObl(Obl{Name: fmt.Sprintf("%s/fails-only-if[%s]@ret%d", key, cl.Label, i+1), Kind: "loop.fails", Guard: r.St.guard, Goal: implies("(not (= "+ev.T+" 0))", why), Pos: c.pos(r.Pos), Text: "an iteration returns an error only if " + cl.Text})
		}
	}
	for _, back := range append(f.nexts(), f.cont...) {
		if back != nil && x.Post != nil {
			back = c.one(c.exec(x.Post, back))
		}
		if back == nil || back.guard == "false" {
			continue
		}
		c.addObl(Obl{Name: key + "/loop.preserve", Kind: "loop.preserve", Guard: back.guard, Goal: c.evalInv(ls, back, "", x.Pos()), Pos: c.pos(x.Pos()), Text: "loop invariant preserved"})
		c.carryProv(h, back)
		if ls.BodyObl != nil {
			ls.BodyObl(c, before, back, "")
		}
		for _, cl := range ls.ContinueIf {
			c.addObl(Obl{Name: fmt.Sprintf("%s/continues-only-if[%s]", key, cl.Label), Kind: "loop.continue", Guard: back.guard, Goal: c.specBool(cl, &SpecEnv{c: c, st: back, entry: c.entry, at: x.End()}), Pos: c.pos(x.Pos()), Text: "the loop goes round again only if " + cl.Text})
		}
		if ls.DecFn != nil {
			c.addObl(Obl{Name: key + "/loop.decreases", Kind: "loop.decreases", Guard: back.guard, Goal: ls.DecFn(c, before, back), Pos: c.pos(x.Pos()), Text: "loop variant decreases"})
		}
		if ls.Increases != nil {
			e0 := c.specVal(ls.Increases, &SpecEnv{c: c, st: before, entry: c.entry, at: x.Pos()}).(Scalar)
			e1 := c.specVal(ls.Increases, &SpecEnv{c: c, st: back, entry: c.entry, at: x.Pos()}).(Scalar)
			b0 := c.specVal(ls.Upto, &SpecEnv{c: c, st: before, entry: c.entry, at: x.Pos()}).(Scalar)
			b1 := c.specVal(ls.Upto, &SpecEnv{c: c, st: back, entry: c.entry, at: x.Pos()}).(Scalar)
			goal := and(c.ltIdx(e0.T, e1.T), and(c.ltIdx(e0.T, b0.T), "(= "+b0.T+" "+b1.T+")"))
			c.addObl(Obl{Name: key + "/loop.decreases", Kind: "loop.decreases", Guard: back.guard, Goal: goal, Pos: c.pos(x.Pos()), Text: "variant " + ls.Upto.Text + " - " + ls.Increases.Text + " decreases and is positive"})
		}
		if ls.Decreases != nil {
			v0 := c.specVal(ls.Decreases, &SpecEnv{c: c, st: before, entry: c.entry, at: x.Pos()}).(Scalar)
			v1 := c.specVal(ls.Decreases, &SpecEnv{c: c, st: back, entry: c.entry, at: x.Pos()}).(Scalar)
			goal := and(c.ltIdx(v1.T, v0.T), c.leIdx(c.zero(v0.S), v0.T))
			if v0.S.K == "int" {
				goal = and("(< "+v1.T+" "+v0.T+")", "(<= 0 "+v0.T+")")
			}
			c.addObl(Obl{Name: key + "/loop.decreases", Kind: "loop.decreases", Guard: back.guard, Goal: goal, Pos: c.pos(x.Pos()), Text: "decreases " + ls.Decreases.Text})
		}
	}
	return Flow{next: c.mergeAll(append([]*State{exit}, f.brk...))}
}

// entrySymbols: the plain constants that hold the values of the scalar variables and byte regions in st (the
// context-free attempt at a loop summary leaves them unconstrained: the summary must hold for any values)
func (c *Ctx) entrySymbols(st *State) []string {
	var out []string
	seen := map[string]bool{}
	add := func(t string) {
		if t != "" && !seen[t] && genSymRe.MatchString(t) && !strings.ContainsAny(t, " ()") {
			seen[t] = true
			out = append(out, t)
		}
	}
	for _, v := range st.env {
		switch x := v.(type) {
		case Scalar:
			add(x.T)
		case SliceV:
			add(x.Len)
			add(x.Off)
			add(x.Arr)
		}
	}
	for _, h := range st.heap {
		add(h)
	}
	sort.Strings(out)
	return out
}

func (c *Ctx) addNamedMods(m *modSet, names []string, st *State) {
	for _, n := range names {
		for o := range st.env {
			if o.Name() == n {
				m.vars[o] = true
			}
		}
	}
}

func (c *Ctx) unrollFor(x *ast.ForStmt, st *State, key string, K int) Flow {
	cur := st
	var exits []*State
	saveN := c.loopN
	for it := 0; it <= K && cur != nil; it++ {
		c.loopN = saveN
		bodySt := cur
		if x.Cond != nil {
			cond := c.eval(x.Cond, cur).(Scalar)
			ct := c.defRaw("lc", "Bool", cond.T)
			exits = append(exits, c.withGuard(cur, not(ct)))
			bodySt = c.withGuard(cur, ct)
		}
		if it == K {
			c.addObl(Obl{Name: key + "/unwind", Kind: "unwind", Guard: bodySt.guard, Goal: "false", Pos: c.pos(x.Pos()), Text: fmt.Sprintf("loop exits within %d iterations (unwinding assertion)", K)})
			cur = nil
			break
		}
		f := c.exec(x.Body, bodySt)
		exits = append(exits, f.brk...)
		cur = c.mergeAll(append(f.nexts(), f.cont...))
		if cur != nil && x.Post != nil {
			cur = c.one(c.exec(x.Post, cur))
		}
	}
	c.loopN = saveN + countLoops(x.Body)
	return Flow{next: c.mergeAll(exits)}
}

func countLoops(b ast.Node) int {
	n := 0
	ast.Inspect(b, func(nd ast.Node) bool {
		switch nd.(type) {
		case *ast.ForStmt, *ast.RangeStmt:
			n++
		case *ast.FuncLit:
			return false
		}
		return true
	})
	return n
}

func (c *Ctx) execRange(x *ast.RangeStmt, st *State) Flow {
	c.loopN++
	ord := c.loopN
	key := fmt.Sprintf("%s/loop%d", c.unit, ord)
	coll := c.eval(x.X, st)
	var ln string
	elem := func(st *State, j string) (Val, Val) { return Scalar{j, c.idx()}, nil }
	switch v := coll.(type) {
	case ListV:
		ln = v.Len
		elem = func(st *State, j string) (Val, Val) { return Scalar{j, c.idx()}, c.listElem(st, v, j) }
	case SliceV:
		ln = v.Len
		if v.IsStr {
			c.abstracted("range over string (runes)")
			elem = func(st *State, j string) (Val, Val) {
				return Scalar{j, c.idx()}, Scalar{c.fresh("rune", Sort{K: "bv", W: 32, Sg: true}), Sort{K: "bv", W: 32, Sg: true}}
			}
		} else {
			elem = func(st *State, j string) (Val, Val) {
				return Scalar{j, c.idx()}, Scalar{c.def("ld", c.byteSort(), fmt.Sprintf("(select %s %s)", c.sliceArr(st, v), c.addIdx(v.Off, j))), c.byteSort()}
			}
		}
	case MapV:
		ln = v.Len
		elem = func(st *State, j string) (Val, Val) {
			var k, e Val
			if s, ok := c.sortOf(v.KeyT); ok {
				k = Scalar{c.def("mk", s, "(select "+v.Keys+" "+j+")"), s}
			} else {
				k = c.valueOfID(st, c.defRaw("mk", "Int", "(select "+v.Keys+" "+j+")"), v.KeyT)
			}
			// the value of the j-th entry is the map's value at the j-th key (one enumeration, values by lookup)
			e = c.mapLookup(st, v, k, false)[0]
			return k, e
		}
	case OpaqueV:
		c.abstracted("range over unmodelled collection")
		ln = c.freshLen("rlen")
		kt, vt := rangeTypes(c.info.TypeOf(x.X))
		elem = func(st *State, j string) (Val, Val) {
			var k, e Val = Scalar{j, c.idx()}, nil
			if kt != nil {
				k = c.symbolic(st, "rk", kt)
			}
			if vt != nil {
				e = c.symbolic(st, "rv", vt)
			}
			return k, e
		}
	default:
		c.fail(x.Pos(), "range over %T", coll)
	}
	ls := c.loopSpec(ord, x)
	if ls == nil {
		ls = &LoopSpec{} // invariant "true": sound, weakest
	}
	zero := c.ilit(0)
	c.addObl(Obl{Name: key + "/loop.entry", Kind: "loop.entry", Guard: st.guard, Goal: c.evalInv(ls, st, zero, x.Pos()), Pos: c.pos(x.Pos()), Text: "loop invariant holds on entry"})
	m := c.modsOf(x.Body)
	c.addNamedMods(&m, ls.Mods, st)
	h := c.havoc(st, m)
	j := c.fresh("j", c.idx())
	if ls.AxFn != nil {
		ls.AxFn(c, h, j)
	}
	c.assumeInv(ls, h, j, x.Pos(), and(c.leIdx(zero, j), c.ltIdx(j, ln)))
	body := h.clone()
	k, e := elem(body, j)
	if id, ok := x.Key.(*ast.Ident); ok && id.Name != "_" {
		body.env[c.rangeObj(id, x)] = k
	}
	if id, ok := x.Value.(*ast.Ident); ok && id.Name != "_" {
		body.env[c.rangeObj(id, x)] = e
	}
	rbefore := body.clone()
	f := c.exec(x.Body, body)
	var backs []*State
	for _, back := range append(f.nexts(), f.cont...) {
		if back == nil || back.guard == "false" {
			continue
		}
		c.addObl(Obl{Name: key + "/loop.preserve", Kind: "loop.preserve", Guard: back.guard, Goal: c.evalInv(ls, back, c.addIdx(j, c.ilit(1)), x.Pos()), Pos: c.pos(x.Pos()), Text: "loop invariant preserved"})
		c.carryProv(h, back)
		backs = append(backs, back)
		if ls.BodyObl != nil {
			ls.BodyObl(c, rbefore, back, j)
		}
		for _, cl := range ls.ContinueIf {
			c.addObl(Obl{Name: fmt.Sprintf("%s/continues-only-if[%s]", key, cl.Label), Kind: "loop.continue", Guard: back.guard, Goal: c.specBool(cl, &SpecEnv{c: c, st: back, entry: c.entry, at: x.End(), idx: j}), Pos: c.pos(x.Pos()), Text: "the loop goes round again only if " + cl.Text})
		}
	}
	e2 := c.havoc(st, m)
	for _, back := range backs {
		c.carryProv(e2, back)
	}
	if ls.AxFn != nil {
		ls.AxFn(c, e2, ln)
	}
	c.assumeInv(ls, e2, ln, x.Pos(), "true")
	return Flow{next: c.mergeAll(append([]*State{e2}, f.brk...))}
}

func (c *Ctx) rangeObj(id *ast.Ident, x *ast.RangeStmt) types.Object {
	if x.Tok == token.DEFINE {
		return c.info.Defs[id]
	}
	return c.info.Uses[id]
}

func rangeTypes(t types.Type) (k, v types.Type) {
	switch u := t.Underlying().(type) {
	case *types.Slice:
		return types.Typ[types.Int], u.Elem()
	case *types.Map:
		return u.Key(), u.Elem()
	case *types.Basic:
		return types.Typ[types.Int], types.Typ[types.Rune]
	}
	return nil, nil
}

// noteElemStore records what is put into a container of the message (C06 representation invariant, C07 provenance)
func (c *Ctx) noteElemStore(st *State, container string, v Val, pos string, what string) {
	switch x := v.(type) {
	case PtrV:
		c.nilElemStores = append(c.nilElemStores, ElemStore{Field: strings.TrimPrefix(container, "x."), Ref: x.Ref, Guard: st.guard, Pos: pos, What: what})
	case SliceV:
		if p := x.Prov; p == "input" || p == "mixed" || strings.HasPrefix(p, "join:") {
			c.aliasStores = append(c.aliasStores, StoreRec{Key: container, Guard: st.guard, Prov: x.Prov, Pos: pos})
		}
	}
}

// ---------- provenance of values that flow round a loop or through a merge ----------
//
// A slice variable assigned in a loop body is havocked at the loop head; its provenance there is the join of the
// provenance it had on entry and of what every back edge carries.  The back edges are only known after the body
// has been executed, so the head value gets a symbolic provenance "join:N" whose contributions are filled in later
// and which is resolved when the obligations are generated.

func (c *Ctx) openProv(ps ...string) string {
	if c.provJoin == nil {
		c.provJoin = map[string][]string{}
	}
	id := fmt.Sprintf("join:%d", len(c.provJoin)+1)
	c.provJoin[id] = append([]string{}, ps...)
	return id
}

// carryProv: what the variables hold at a back edge flows into the loop-head provenance of the same variables
func (c *Ctx) carryProv(head, back *State) {
	for o, hv := range head.env {
		hs, ok := hv.(SliceV)
		if !ok || !strings.HasPrefix(hs.Prov, "join:") {
			continue
		}
		if bs, ok := back.env[o].(SliceV); ok && bs.Prov != hs.Prov {
			c.provJoin[hs.Prov] = append(c.provJoin[hs.Prov], bs.Prov)
		}
	}
}

// resolveProv: "input" as soon as one contribution may be the input; the common value when all agree (constants
// and fresh memory count as fresh); "mixed" otherwise
func (c *Ctx) resolveProv(p string) string {
	seen := map[string]bool{}
	var leaves []string
	var walk func(q string)
	walk = func(q string) {
		if !strings.HasPrefix(q, "join:") {
			leaves = append(leaves, q)
			return
		}
		if seen[q] {
			return
		}
		seen[q] = true
		for _, r := range c.provJoin[q] {
			walk(r)
		}
	}
	walk(p)
	res := ""
	for _, l := range leaves {
		if l == "input" || l == "mixed" {
			return "input"
		}
		if l == "const" || l == "" {
			l = "fresh"
		}
		if res == "" {
			res = l
		} else if res != l {
			res = "mixed"
		}
	}
	if res == "" {
		res = "fresh"
	}
	return res
}
