package main

// Emitted-code family: the generated `size` and `marshal` closures (DESIGN.md Appendix C), mode int.
// Cut-point scheme: every top-level field block is one Hoare triple over an opaque accumulator:
//   size:    {n == n0}                         block_f   {n == n0 + FieldSize_f(x)}
//   marshal: {i == FieldSize_f(x) + Rest, Rest >= 0, i <= len(dAtA)}   block_f   {i == Rest}
// FieldSize_f is the wire-format spec built from the schema (struct tags + Go types), never from the code.
// The blocks of both closures must cover every field of the schema exactly once (ground check), hence
// size == sum of FieldSize_f == number of bytes marshal writes, and marshal ends with i == 0.

import (
	"fmt"
	"go/ast"
	"go/token"
	"go/types"
	"sort"
	"strings"
)

type smGroup struct {
	fields []string
	stmts  []ast.Stmt
}

type smEngine struct {
	c       *Ctx
	ms      *MsgSchema
	closure string
	x       PtrV
	xobj    types.Object
	accObj  types.Object
	sufN    int
	cur     *smGroup
	a0      string
	sufs    map[string]*sufInfo // by enumeration key
	unit    *Unit
	o       smOpts
}

type sufInfo struct {
	name    string
	ln      string
	contrib func(j string) string
	closed  func(k string) string // closed form (fixed-width elements); nil when axiomatised
}

func ext64(c *Ctx, v Scalar) string {
	switch {
	case v.S.W == 64:
		return v.T
	case v.S.Sg:
		return fmt.Sprintf("((_ sign_extend %d) %s)", 64-v.S.W, v.T)
	default:
		return fmt.Sprintf("((_ zero_extend %d) %s)", 64-v.S.W, v.T)
	}
}

// payloadSize: encoded size of one value of the field's element kind, without tag
func payloadSize(c *Ctx, st *State, f *FieldSchema, v Val) string {
	switch f.Kind {
	case "bool":
		return "1"
	case "int32", "int64", "uint32", "uint64", "enum":
		return "(VarintLen " + ext64(c, v.(Scalar)) + ")"
	case "sint32":
		return "(VarintLen ((_ zero_extend 32) (ZigZag32 " + v.(Scalar).T + ")))"
	case "sint64":
		return "(VarintLen (ZigZag64 " + v.(Scalar).T + "))"
	case "fixed32", "sfixed32", "float":
		return "4"
	case "fixed64", "sfixed64", "double":
		return "8"
	case "string", "bytes":
		sv := v.(SliceV)
		return "(+ (VarintLenI " + sv.Len + ") " + sv.Len + ")"
	case "message":
		p := v.(PtrV)
		s := "(SizeSpec " + p.Ref + ")"
		return "(+ (VarintLenI " + s + ") " + s + ")"
	}
	panic(unsupported{"payloadSize: kind " + f.Kind})
}

func presentTerm(c *Ctx, f *FieldSchema, v Val) string {
	switch x := v.(type) {
	case Scalar:
		if x.S.K == "bool" {
			return x.T
		}
		return "(not (= " + x.T + " " + c.zero(x.S) + "))"
	case SliceV:
		return "(> " + x.Len + " 0)"
	case PtrV:
		return "(not (= " + x.Ref + " 0))"
	}
	panic(unsupported{"presentTerm"})
}

func fixedWidth(kind string) int {
	switch kind {
	case "bool":
		return 1
	case "fixed32", "sfixed32", "float":
		return 4
	case "fixed64", "sfixed64", "double":
		return 8
	}
	return 0
}

func (e *smEngine) newSuf(key, ln string, contrib func(j string) string) *sufInfo {
	if si, ok := e.sufs[key]; ok {
		return si
	}
	c := e.c
	e.sufN++
	si := &sufInfo{name: fmt.Sprintf("Suf%d_%s", e.sufN, sanitize(key)), ln: ln, contrib: contrib}
	c.declareFun(si.name, "(Int) Int")
	c.global("(assert (= (" + si.name + " " + ln + ") 0))")
	c.global("(assert (forall ((k Int)) (! (and (>= (" + si.name + " k) 0) (<= (" + si.name + " k) (" + si.name + " 0))) :pattern ((" + si.name + " k)))))")
	e.sufs[key] = si
	return si
}

func (si *sufInfo) at(k string) string {
	if si.closed != nil {
		return si.closed(k)
	}
	return "(" + si.name + " " + k + ")"
}

// unfold: Suf(j) == contrib(j) + Suf(j+1) for 0 <= j < len (instantiated at the loop index; no induction needed)
func (e *smEngine) unfold(si *sufInfo, j string) {
	if si.closed != nil {
		return
	}
	e.c.assume(fmt.Sprintf("(=> (and (<= 0 %s) (< %s %s)) (= (%s %s) (+ %s (%s (+ %s 1)))))", j, j, si.ln, si.name, j, si.contrib(j), si.name, j))
}

// listContrib: per-element contribution of repeated field f for element value v
func (e *smEngine) elemContrib(st *State, f *FieldSchema, v Val) string {
	if f.Packed {
		return payloadSize(e.c, st, f, v)
	}
	return fmt.Sprintf("(+ %d %s)", f.elemTagLen(), payloadSize(e.c, st, f, v))
}

func (e *smEngine) listSuf(st *State, f *FieldSchema, lv ListV) *sufInfo {
	c := e.c
	key := "list:" + f.GoName // the message is not modified by size/marshal: one enumeration per field
	if w := fixedWidth(f.Kind); w > 0 {
		// fixed-width elements: closed form instead of an axiomatised suffix sum
		if !f.Packed {
			w += f.elemTagLen()
		}
		return &sufInfo{ln: lv.Len, closed: func(k string) string { return fmt.Sprintf("(* %d (- %s %s))", w, lv.Len, k) }}
	}
	return e.newSuf(key, lv.Len, func(j string) string {
		save := c.noDef
		c.noDef = true
		defer func() { c.noDef = save }()
		return e.elemContrib(st, f, c.listElem(st, lv, j))
	})
}

// mapEntrySize: tag + len-prefix + (1 + key) + (1 + value)
func (e *smEngine) mapEntrySize(st *State, f *FieldSchema, k, v Val) string {
	c := e.c
	ks := payloadSize(c, st, f.Key, k)
	vs := payloadSize(c, st, f.Val, v)
	es := fmt.Sprintf("(+ 1 %s 1 %s)", ks, vs)
	return fmt.Sprintf("(+ %d (VarintLenI %s) %s)", f.tagLen(), es, es)
}

func (e *smEngine) mapSizeConst(f *FieldSchema, m MapV) string {
	c := e.c
	fn := "MapSize_" + sanitize(f.GoName)
	c.declareFun(fn, "(Int) Int")
	c.global("(assert (forall ((m Int)) (! (>= (" + fn + " m) 0) :pattern ((" + fn + " m)))))")
	return "(" + fn + " " + m.Id + ")"
}

// mapSuf: suffix sums of the entry sizes under one enumeration (keys/vals arrays) of the map; every enumeration of
// the same map sums to MapSize_f(id) (trusted: a finite sum does not depend on the enumeration order).
func (e *smEngine) mapSuf(st *State, f *FieldSchema, m MapV, keys, vals string, lookup bool) *sufInfo {
	c := e.c
	key := "map:" + f.GoName + ":" + keys // one suffix function per enumeration (key array) of the map
	si := e.newSuf(key, m.Len, func(j string) string {
		save := c.noDef
		c.noDef = true
		defer func() { c.noDef = save }()
		var k, v Val
		if s, ok := c.sortOf(m.KeyT); ok {
			k = Scalar{"(select " + keys + " " + j + ")", s}
		} else {
			k = c.valueOfID(st, "(select "+keys+" "+j+")", m.KeyT)
		}
		if lookup {
			v = c.mapLookup(st, m, k, false)[0]
		} else if s, ok := c.sortOf(m.ValT); ok {
			v = Scalar{"(select " + vals + " " + j + ")", s}
		} else {
			v = c.valueOfID(st, "(select "+vals+" "+j+")", m.ValT)
		}
		return e.mapEntrySize(st, f, k, v)
	})
	c.global("(assert (= (" + si.name + " 0) " + e.mapSizeConst(f, m) + "))")
	return si
}

// fieldSizeSpec: FieldSize_f(x) for a Go struct field of the message (a plain field, a oneof, or unknownFields)
func (e *smEngine) fieldSizeSpec(st *State, goName string) (string, bool) {
	c := e.c
	if goName == "unknownFields" {
		sv := c.loadField(st, e.x, goName).(SliceV)
		return sv.Len, true
	}
	if o := e.ms.oneof(goName); o != nil {
		iv := c.loadField(st, e.x, goName).(IfaceV)
		total := "0"
		for _, m := range o.Members {
			k := c.typeTag(m.Wrapper)
			w := PtrV{Ref: iv.Ref, Named: m.Wrapper}
			pv := c.loadField(st, w, m.GoName)
			sz := fmt.Sprintf("(+ %d %s)", m.tagLen(), payloadSize(c, st, m, pv)) // oneof members: no presence guard
			total = fmt.Sprintf("(ite (and (= %s %d) (not (= %s 0))) %s %s)", iv.Tag, k, iv.Ref, sz, total)
		}
		return total, true
	}
	f := e.ms.field(goName)
	if f == nil {
		if fieldType(e.ms.Struct, goName) != nil {
			return "0", true // bookkeeping fields (state, sizeCache) contribute no bytes
		}
		return "", false
	}
	v := c.loadField(st, e.x, goName)
	switch {
	case f.IsMap:
		m := v.(MapV)
		e.mapSuf(st, f, m, m.Keys, m.Vals, true)
		return "(ite (> " + m.Len + " 0) " + e.mapSizeConst(f, m) + " 0)", true
	case f.Rep:
		lv, ok := v.(ListV)
		if !ok {
			return "", false
		}
		si := e.listSuf(st, f, lv)
		if f.Packed {
			p := si.at("0")
			return fmt.Sprintf("(ite (> %s 0) (+ %d (VarintLenI %s) %s) 0)", lv.Len, f.tagLen(), p, p), true
		}
		return si.at("0"), true
	}
	return "(ite " + presentTerm(c, f, v) + " " + fmt.Sprintf("(+ %d %s)", f.tagLen(), payloadSize(c, st, f, v)) + " 0)", true
}

// ---------- statement grouping ----------

func fieldsRead(c *Ctx, s ast.Node, xobj types.Object) []string {
	set := map[string]bool{}
	ast.Inspect(s, func(n ast.Node) bool {
		if se, ok := n.(*ast.SelectorExpr); ok {
			if id, ok := se.X.(*ast.Ident); ok && c.info.Uses[id] == xobj {
				set[se.Sel.Name] = true
			}
		}
		return true
	})
	var r []string
	for k := range set {
		r = append(r, k)
	}
	sort.Strings(r)
	return r
}

func mentions(s ast.Node, name string) bool {
	found := false
	ast.Inspect(s, func(n ast.Node) bool {
		if id, ok := n.(*ast.Ident); ok && id.Name == name {
			found = true
		}
		return !found
	})
	return found
}

// splitBody: prologue (up to the first statement that reads a field of x), field groups, epilogue (from the first
// later statement that mentions `input` again, or the final return).
func splitBody(c *Ctx, body []ast.Stmt, xobj func() types.Object) (pro []ast.Stmt, groups []smGroup, epi []ast.Stmt) {
	i := 0
	for ; i < len(body); i++ {
		if o := xobj(); o != nil && len(fieldsRead(c, body[i], o)) > 0 {
			break
		}
	}
	// epilogue: the maximal suffix of statements that read no field of x
	j := len(body)
	for j > i && len(fieldsRead(c, body[j-1], xobj())) == 0 {
		j--
	}
	pro, epi = body[:i], body[j:]
	for _, s := range body[i:j] {
		fr := fieldsRead(c, s, xobj())
		if len(fr) == 0 && len(groups) > 0 {
			groups[len(groups)-1].stmts = append(groups[len(groups)-1].stmts, s)
			continue
		}
		groups = append(groups, smGroup{fr, []ast.Stmt{s}})
	}
	return
}

// ---------- loop contracts by shape ----------

func loopCarried(c *Ctx, body *ast.BlockStmt) []types.Object {
	// integer variables declared outside the loop body and updated by += / -= / ++ / -- / = inside it
	seen := map[types.Object]bool{}
	reset := map[types.Object]bool{} // plainly re-assigned from an expression that does not read the variable
	var out []types.Object
	add := func(e ast.Expr) {
		id, ok := e.(*ast.Ident)
		if !ok {
			return
		}
		o := c.objOf(id)
		if o == nil || seen[o] || (o.Pos() >= body.Pos() && o.Pos() <= body.End()) {
			return
		}
		if b, ok := o.Type().Underlying().(*types.Basic); !ok || b.Kind() != types.Int {
			return
		}
		seen[o] = true
		out = append(out, o)
	}
	visited := map[*ast.FuncLit]bool{}
	var walk func(n ast.Node)
	walk = func(n ast.Node) {
		ast.Inspect(n, func(n ast.Node) bool {
			switch x := n.(type) {
			case *ast.AssignStmt:
				for i, l := range x.Lhs {
					add(l)
					if id, ok := l.(*ast.Ident); ok && x.Tok == token.ASSIGN && len(x.Rhs) == len(x.Lhs) && !mentions(x.Rhs[i], id.Name) {
						reset[c.objOf(id)] = true
					}
				}
			case *ast.IncDecStmt:
				add(x.X)
			case *ast.CallExpr:
				if id, ok := x.Fun.(*ast.Ident); ok {
					if lit := c.funcLits[c.objOf(id)]; lit != nil && !visited[lit] {
						visited[lit] = true
						walk(lit.Body)
					}
				}
			}
			return true
		})
	}
	walk(body)
	var acc []types.Object
	for _, o := range out {
		if !reset[o] {
			acc = append(acc, o)
		}
	}
	return acc
}

func (e *smEngine) loopSpec(c *Ctx, ord int, loop ast.Stmt) *LoopSpec {
	if e.cur == nil {
		return nil
	}
	switch l := loop.(type) {
	case *ast.ForStmt:
		// inline varint writer: for v >= 1<<7 { … }
		if l.Init == nil && l.Post == nil && l.Cond != nil {
			if be, ok := l.Cond.(*ast.BinaryExpr); ok && be.Op == token.GEQ {
				return &LoopSpec{Unroll: 10}
			}
		}
		// reverse index loop: for iNdEx := len(L) - 1; iNdEx >= 0; iNdEx--
		if l.Init != nil && l.Cond != nil && l.Post != nil {
			return e.reverseLoopSpec(l)
		}
	case *ast.RangeStmt:
		return e.rangeLoopSpec(l)
	}
	return nil
}

func (e *smEngine) theField() *FieldSchema {
	if e.cur == nil || len(e.cur.fields) != 1 {
		return nil
	}
	return e.ms.field(e.cur.fields[0])
}

// enumeration of the collection a loop runs over: list field, map field, or a sorted key list (PermOf)
func (e *smEngine) sufFor(st *State, coll Val) *sufInfo {
	f := e.theField()
	if f == nil {
		return nil
	}
	switch v := coll.(type) {
	case ListV:
		if v.PermOf != nil {
			if e.o.opts {
				e.unit.Grounds = append(e.unit.Grounds, Ground{Name: fmt.Sprintf("%s/%s/deterministic-iterates-sorted-keys#%d", e.unit.Name, f.GoName, len(e.unit.Grounds)+1), OK: v.Sorted,
					Text: "the key list iterated under options.Deterministic has been sorted (sort.Slice/sort.Strings: trusted to produce the sorted permutation; comparator proved separately)"})
			}
			return e.mapSuf(st, f, *v.PermOf, v.Elems, "", true)
		}
		if f.Rep && !f.IsMap {
			return e.listSuf(st, f, v)
		}
	case MapV:
		if f.IsMap {
			return e.mapSuf(st, f, v, v.Keys, v.Vals, true)
		}
	}
	return nil
}

func (e *smEngine) rangeLoopSpec(l *ast.RangeStmt) *LoopSpec {
	c := e.c
	carried := loopCarried(c, l.Body)
	// key-collection loop: for k := range x.M { keys = append(keys, k) }
	if len(l.Body.List) == 1 {
		if as, ok := l.Body.List[0].(*ast.AssignStmt); ok && len(as.Lhs) == 1 && len(as.Rhs) == 1 {
			if call, ok := as.Rhs[0].(*ast.CallExpr); ok {
				if id, ok := call.Fun.(*ast.Ident); ok && id.Name == "append" {
					lhs := as.Lhs[0]
					return &LoopSpec{InvFn: func(c *Ctx, st *State, idx string) string {
						if lv, ok := c.eval(lhs, st).(ListV); ok {
							return "(= " + lv.Len + " " + idx + ")"
						}
						return "true"
					}}
				}
			}
		}
	}
	entry := map[types.Object]string{}
	var si *sufInfo
	var body func(c *Ctx, before, after *State, idx string)
	if e.o.content && e.closure == "marshal" {
		idxHolder := ""
		elemOf := func(st *State) (Val, Val, bool) {
			switch v := c.eval(l.X, st).(type) {
			case ListV:
				if v.PermOf != nil {
					k := c.listElem(st, v, idxHolder)
					return k, c.mapLookup(st, *v.PermOf, k, false)[0], true
				}
				return nil, c.listElem(st, v, idxHolder), true
			case MapV:
				var k Val
				if s, ok := c.sortOf(v.KeyT); ok {
					k = Scalar{"(select " + v.Keys + " " + idxHolder + ")", s}
				} else {
					k = c.valueOfID(st, "(select "+v.Keys+" "+idxHolder+")", v.KeyT)
				}
				return k, c.mapLookup(st, v, k, false)[0], true
			}
			return nil, nil, false
		}
		inner := e.iterationContent("range", elemOf, c.pos(l.Pos()))
		body = func(c *Ctx, before, after *State, idx string) {
			idxHolder = idx
			inner(c, before, after, idx)
		}
	}
	return &LoopSpec{
		BodyObl: body,
		AxFn: func(c *Ctx, st *State, idx string) {
			if si != nil {
				e.unfold(si, idx)
			}
		},
		InvFn: func(c *Ctx, st *State, idx string) string {
			if si == nil {
				si = e.sufFor(st, c.eval(l.X, st))
				if si == nil {
					panic(unsupported{c.pos(l.Pos()) + ": range loop over something that is not the block's repeated/map field"})
				}
			}
			r := "true"
			pre := "(- " + si.at("0") + " " + si.at(idx) + ")"
			for _, o := range carried {
				v, ok := st.env[o].(Scalar)
				if !ok {
					continue
				}
				if _, has := entry[o]; !has {
					entry[o] = v.T // value on loop entry (first evaluation is the entry obligation)
				}
				if e.closure == "marshal" && o == e.accObj {
					r = and(r, "(= "+v.T+" (- "+entry[o]+" "+pre+"))") // the back-filled write position moves down
				} else {
					r = and(r, "(= "+v.T+" (+ "+entry[o]+" "+pre+"))")
				}
			}
			return r
		},
	}
}

func (e *smEngine) reverseLoopSpec(l *ast.ForStmt) *LoopSpec {
	c := e.c
	as, ok := l.Init.(*ast.AssignStmt)
	if !ok || len(as.Lhs) != 1 {
		return nil
	}
	iv, ok := as.Lhs[0].(*ast.Ident)
	if !ok {
		return nil
	}
	// the collection: len(<coll>) - 1
	var collExpr ast.Expr
	ast.Inspect(as.Rhs[0], func(n ast.Node) bool {
		if call, ok := n.(*ast.CallExpr); ok {
			if id, ok := call.Fun.(*ast.Ident); ok && id.Name == "len" && len(call.Args) == 1 {
				collExpr = call.Args[0]
			}
		}
		return true
	})
	if collExpr == nil {
		return nil
	}
	carried := loopCarried(c, l.Body)
	entry := map[types.Object]string{}
	var si *sufInfo
	ivObj := c.info.Defs[iv]
	var body func(c *Ctx, before, after *State, idx string)
	if e.o.content && e.closure == "marshal" {
		elemOf := func(st *State) (Val, Val, bool) {
			k, ok := st.env[ivObj].(Scalar)
			if !ok {
				return nil, nil, false
			}
			switch v := c.eval(collExpr, st).(type) {
			case ListV:
				if v.PermOf != nil {
					key := c.listElem(st, v, k.T)
					return key, c.mapLookup(st, *v.PermOf, key, false)[0], true
				}
				return nil, c.listElem(st, v, k.T), true
			}
			return nil, nil, false
		}
		body = e.iterationContent("reverse", elemOf, c.pos(l.Pos()))
	}
	return &LoopSpec{
		BodyObl: body,
		InvFn: func(c *Ctx, st *State, _ string) string {
			if si == nil {
				si = e.sufFor(st, c.eval(collExpr, st))
				if si == nil {
					panic(unsupported{c.pos(l.Pos()) + ": reverse loop over something that is not the block's repeated/map field"})
				}
			}
			k, ok := st.env[ivObj].(Scalar)
			if !ok {
				return "true"
			}
			e.unfoldNoDef(si, k.T)
			r := and("(<= (- 1) "+k.T+")", "(< "+k.T+" "+si.ln+")")
			for _, o := range carried {
				if o == ivObj {
					continue
				}
				v, ok := st.env[o].(Scalar)
				if !ok {
					continue
				}
				if _, has := entry[o]; !has {
					entry[o] = c.addIdx(v.T, si.at(c.addIdx(k.T, "1"))) // acc0 == acc + Suf(k+1) at entry (k = len-1, Suf(len) = 0)
				}
				r = and(r, "(= "+v.T+" (- "+entry[o]+" "+si.at("(+ "+k.T+" 1)")+"))")
			}
			return r
		},
	}
}

func (e *smEngine) unfoldNoDef(si *sufInfo, k string) {
	save := e.c.noDef
	e.c.noDef = false
	e.unfold(si, k)
	e.c.noDef = save
}

// ---------- driver ----------

type smOpts struct {
	cut     bool                         // C04: size = encoded length, per-block triples, safety
	frame   bool                         // C07/C11: no store to the message; provenance of the result
	opts    bool                         // C05/C14: nested calls use the options derived from input
	unknown bool                         // C14: the unknown-field block (position and content)
	content bool                         // C02: byte content of every write event against the wire-format spec; block order
	keep    func(name, kind string) bool // optional filter on the obligations/grounds a property keeps
}

const twoTo62 = "4611686018427387904"

func sizeMarshalUnits(prog *Program, ms *MsgSchema, o smOpts) []*Unit {
	var units []*Unit
	var covered [2][]string
	for ci, closure := range []string{"size", "marshal"} {
		u, cov := sizeMarshalUnit(prog, ms, closure, o)
		units = append(units, u)
		covered[ci] = cov
	}
	// coverage: both closures handle every field of the schema exactly once
	if o.cut && units[0].Skipped == "" && units[1].Skipped == "" {
		want := map[string]bool{"unknownFields": true}
		for _, f := range ms.Fields {
			if f.Oneof != nil {
				want[f.Oneof.GoName] = true
			} else {
				want[f.GoName] = true
			}
		}
		for ci, closure := range []string{"size", "marshal"} {
			got := map[string]int{}
			for _, g := range covered[ci] {
				got[g]++
			}
			ok := len(got) == len(want)
			var detail []string
			for k := range want {
				if got[k] != 1 {
					ok = false
					detail = append(detail, fmt.Sprintf("%s handled %d times", k, got[k]))
				}
			}
			sort.Strings(detail)
			units[ci].Grounds = append(units[ci].Grounds, Ground{Name: units[ci].Name + "/coverage[every field exactly once]", OK: ok,
				Text: closure + " has exactly one block for every field of the schema and for the unknown fields", Detail: strings.Join(detail, "; ")})
		}
	}
	return units
}

func sizeMarshalUnit(prog *Program, ms *MsgSchema, closure string, o smOpts) (u *Unit, covered []string) {
	pkg := ms.Pkg
	u = &Unit{Name: shortPkg(pkg.PkgPath) + "." + ms.Name + "." + closure}
	lit := findClosure(pkg, ms.Name, closure)
	if lit == nil {
		u.Skipped = "no " + closure + " closure found in ProtoMethods"
		return
	}
	c := newCtx(prog, pkg, "int", u.Name)
	schemaByUnit[u.Name] = ms
	c.tag = map[string]string{"message": ms.Name, "method": closure, "package": pkg.PkgPath}
	u.Ctx = c
	u.File = c.pos(lit.Pos())
	defer func() {
		if r := recover(); r != nil {
			if us, ok := r.(unsupported); ok {
				u.Skipped = "outside the supported subset: " + us.msg
				return
			}
			panic(r)
		}
	}()
	e := &smEngine{c: c, ms: ms, closure: closure, sufs: map[string]*sufInfo{}, unit: u, o: o}
	st := newState()
	detectRoles(lit, closure)
	xref := c.setupClosure(lit, st, ms)
	e.x = PtrV{Ref: xref, Named: ms.Named}
	c.loadStruct(st, e.x)
	c.loopSpecFor = e.loopSpec
	optionsFromInput := map[types.Object]bool{}
	ast.Inspect(lit.Body, func(n ast.Node) bool {
		if as, ok := n.(*ast.AssignStmt); ok && len(as.Lhs) == 1 && len(as.Rhs) == 1 {
			if call, ok := as.Rhs[0].(*ast.CallExpr); ok {
				if fn := c.calleeFunc(call); fn != nil && (funcKey(fn) == repoModule+"/runtime.SizeInputToOptions" || funcKey(fn) == repoModule+"/runtime.MarshalInputToOptions") && len(call.Args) == 1 {
					if a, ok := call.Args[0].(*ast.Ident); ok && a.Name == "input" {
						if id, ok := as.Lhs[0].(*ast.Ident); ok {
							optionsFromInput[c.objOf(id)] = true
						}
					}
				}
			}
		}
		return true
	})
	nestedN := 0
	c.callHook = func(c *Ctx, call *ast.CallExpr, st *State) ([]Val, bool) {
		if isInputMessageInterface(c, call) {
			return []Val{IfaceV{Tag: fmt.Sprint(c.typeTag(ms.Named)), Ref: xref}}, true
		}
		sel, ok := call.Fun.(*ast.SelectorExpr)
		if !ok {
			return nil, false
		}
		fn := c.calleeFunc(call)
		key := funcKey(fn)
		switch key {
		case "google.golang.org/protobuf/proto.MarshalOptions.Size", "google.golang.org/protobuf/proto.MarshalOptions.Marshal":
			c.eval(sel.X, st)
			m := c.eval(call.Args[0], st)
			p, ok := m.(PtrV)
			if !ok {
				return nil, false
			}
			nestedN++
			if o.opts {
				id, isId := sel.X.(*ast.Ident)
				okRecv := isId && optionsFromInput[c.objOf(id)]
				u.Grounds = append(u.Grounds, Ground{Name: fmt.Sprintf("%s/nested-call-uses-options#%d", u.Name, nestedN), OK: okRecv,
					Text: "nested " + sel.Sel.Name + " is called on the options value derived from this call's input flags (Deterministic reaches every depth)", Detail: c.pos(call.Pos())})
			}
			c.usedSpecs[key] = true
			sz := c.defRaw("sz", "Int", "(SizeSpec "+p.Ref+")")
			if sel.Sel.Name == "Size" {
				return []Val{Scalar{sz, c.idx()}}, true
			}
			rg := c.newRegion(st, "enc")
			er := c.freshRaw("merr", "Int")
			c.assume("(>= " + er + " 0)")
			if o.content {
				// callee contract (the property itself, by induction): the returned bytes are Enc(m)
				c.declareFun("EncMsg", "(Int Int) (_ BitVec 8)")
				arr := st.heap[rg]
				c.assume(fmt.Sprintf("(forall ((k Int)) (! (=> (and (<= 0 k) (< k %s)) (= (select %s k) (EncMsg %s k))) :pattern ((select %s k))))", sz, arr, p.Ref, arr))
			}
			return []Val{SliceV{Region: rg, Off: "0", Len: sz, Cap: sz, Nil: "false", Prov: "callee"}, ErrV{er}}, true
		case "sort.Slice", "sort.Strings":
			// in-place sort: same length, still an enumeration of the same keys (trusted: sort yields a sorted permutation)
			lv, ok := c.eval(call.Args[0], st).(ListV)
			if !ok {
				return nil, false
			}
			nl := ListV{Len: lv.Len, Elems: c.freshRaw("sorted_elems", c.listArrSort(lv.ElemT)), Nil: lv.Nil, ElemT: lv.ElemT, Prov: lv.Prov, PermOf: lv.PermOf, Sorted: true}
			c.assignTo(call.Args[0], nl, st, false)
			c.usedSpecs[key] = true
			if key == "sort.Slice" && len(call.Args) == 2 {
				if fl, ok := call.Args[1].(*ast.FuncLit); ok {
					e.comparatorObligation(st, fl, nl, call)
				}
			}
			return nil, true
		}
		return nil, false
	}
	// key-collection loops mark their result as an enumeration of the map's keys
	c.stmtHook = func(c *Ctx, s ast.Stmt, st *State) (Flow, bool) {
		rs, ok := s.(*ast.RangeStmt)
		if !ok || len(rs.Body.List) != 1 || c.inHook {
			return Flow{}, false
		}
		as, ok := rs.Body.List[0].(*ast.AssignStmt)
		if !ok || len(as.Lhs) != 1 || len(as.Rhs) != 1 {
			return Flow{}, false
		}
		call, ok := as.Rhs[0].(*ast.CallExpr)
		if !ok {
			return Flow{}, false
		}
		if id, ok := call.Fun.(*ast.Ident); !ok || id.Name != "append" || len(call.Args) != 2 {
			return Flow{}, false
		}
		m, ok := c.eval(rs.X, st).(MapV)
		if !ok {
			return Flow{}, false
		}
		// the appended value must be the range key (possibly converted)
		keyId, ok := rs.Key.(*ast.Ident)
		if !ok || !mentions(call.Args[1], keyId.Name) || rs.Value != nil {
			return Flow{}, false
		}
		c.inHook = true
		f := c.execRange(rs, st)
		c.inHook = false
		end := c.one(f)
		if end == nil {
			return f, true
		}
		if lv, ok := c.eval(as.Lhs[0], end).(ListV); ok {
			mm := m
			lv.PermOf = &mm
			c.assignTo(as.Lhs[0], lv, end, false)
		}
		return Flow{next: end}, true
	}
	pro, groups, epi := splitBody(c, lit.Body.List, func() types.Object {
		if e.xobj != nil {
			return e.xobj
		}
		if as, ok := lit.Body.List[0].(*ast.AssignStmt); ok {
			if id, ok := as.Lhs[0].(*ast.Ident); ok {
				e.xobj = c.info.Defs[id]
			}
		}
		return e.xobj
	})
	if e.xobj == nil {
		panic(unsupported{"closure does not start with x := input.Message.Interface().(*M)"})
	}
	c.entry = st.clone()
	c.addObl(Obl{Name: u.Name + "/cover[entry]", Kind: "cover", Guard: "true", Goal: "true", Expect: "sat", Text: "entry assumptions are satisfiable"})
	fl := c.execBlock(pro, st)
	st = c.one(fl)
	if st == nil {
		panic(unsupported{"prologue has no fall-through"})
	}
	// prologue return (x == nil): Size == 0 / Buf unchanged
	if o.cut {
		for i, r := range c.rets {
			out, ok := r.Vals[0].(StructV)
			if !ok {
				continue
			}
			if closure == "size" {
				if sz, ok := out.F["Size"].(Scalar); ok {
					c.addObl(Obl{Name: fmt.Sprintf("%s/prologue/ensures[nil message has size 0]@ret%d", u.Name, i+1), Kind: "ensures", Guard: r.St.guard, Goal: "(= " + sz.T + " 0)", Pos: c.pos(r.Pos), Text: "x == nil ==> Size == 0"})
				}
			} else if b, ok := out.F["Buf"].(SliceV); ok {
				in := c.entry.env[c.info.Defs[lit.Type.Params.List[0].Names[0]]].(StructV).F["Buf"].(SliceV)
				c.addObl(Obl{Name: fmt.Sprintf("%s/prologue/ensures[nil message adds no bytes]@ret%d", u.Name, i+1), Kind: "ensures", Guard: r.St.guard, Goal: and("(= "+b.Len+" "+in.Len+")", "(= "+c.sliceArr(r.St, b)+" "+c.sliceArr(c.entry, in)+")"), Pos: c.pos(r.Pos), Text: "x == nil ==> Buf == input.Buf"})
			}
		}
	}
	nPro := len(c.rets)
	acc := "n"
	if closure == "marshal" {
		acc = "i"
	}
	acc = role(acc)
	for ob := range st.env {
		if ob.Name() == acc && ob.Pos() > lit.Pos() && ob.Pos() < lit.End() {
			if e.accObj == nil || ob.Pos() < e.accObj.Pos() {
				e.accObj = ob
			}
		}
	}
	if e.accObj == nil {
		panic(unsupported{"no accumulator variable " + acc})
	}
	var dLen string
	if closure == "marshal" {
		d, ok := envByName(st, "dAtA", lit.End())
		if !ok {
			panic(unsupported{"marshal: no dAtA"})
		}
		dLen = d.(SliceV).Len
	}
	base := st
	if o.unknown {
		pos := -1
		for gi := range groups {
			if len(groups[gi].fields) == 1 && groups[gi].fields[0] == "unknownFields" {
				pos = gi
			}
		}
		if closure == "marshal" {
			u.Grounds = append(u.Grounds, Ground{Name: u.Name + "/unknownFields/written-first-into-the-back-filled-buffer", OK: pos == 0,
				Text: "the unknown-field block is the first block of marshal: in the output the unknown bytes come after every known field", Detail: fmt.Sprintf("block index %d of %d", pos, len(groups))})
		} else {
			u.Grounds = append(u.Grounds, Ground{Name: u.Name + "/unknownFields/counted", OK: pos >= 0, Text: "size has a block for the unknown fields"})
		}
	}
	if o.content && closure == "marshal" {
		e.legacyOrderGround(u, groups)
	}
	for gi := range groups {
		g := &groups[gi]
		name := strings.Join(g.fields, "+")
		if o.unknown && name == "unknownFields" {
			c.content = true
		} else if o.unknown {
			c.content = false
		}
		if o.content && closure == "marshal" {
			c.content = true
		}
		covered = append(covered, g.fields...)
		spec := "0"
		ok := true
		for _, f := range g.fields {
			t, fok := e.fieldSizeSpec(base, f)
			if !fok {
				ok = false
				break
			}
			spec = "(+ " + spec + " " + t + ")"
		}
		if !ok {
			panic(unsupported{"no size spec for field group " + name})
		}
		fs := c.defRaw("FS_"+name, "Int", spec)
		a0 := c.freshRaw(acc+"0", "Int")
		var rest, pre string
		if closure == "marshal" {
			rest = c.freshRaw("Rest", "Int")
			pre = fmt.Sprintf("(and (>= %s 0) (= %s (+ %s %s)) (<= %s %s) (<= %s %s))", rest, a0, fs, rest, a0, dLen, dLen, twoTo62)
		} else {
			pre = fmt.Sprintf("(and (>= %s 0) (<= (+ %s %s) %s))", a0, a0, fs, twoTo62) // resource assumption: encoded size < 2^62
		}
		// oneof blocks: the domain of message values excludes typed-nil wrappers (x.O = (*M_Member)(nil)) for the main
		// triple; the typed-nil case is proved separately under its own obligation names (size counts it as 0 bytes).
		variants := []struct{ tag, extra string }{{"", "true"}}
		if len(g.fields) == 1 {
			if oo := ms.oneof(g.fields[0]); oo != nil {
				iv := c.loadField(base, e.x, g.fields[0]).(IfaceV)
				wf := implies(not("(= "+iv.Tag+" 0)"), not("(= "+iv.Ref+" 0)"))
				variants = []struct{ tag, extra string }{{"", wf}, {"typednil/", not(wf)}}
			}
		}
		var end *State
		for _, vr := range variants {
			// the block's precondition is part of its path condition (so every obligation of the block sees it)
			gst := c.withGuard(base, and(pre, vr.extra))
			gst.env[e.accObj] = Scalar{a0, c.idx()}
			if closure == "marshal" {
				// what earlier blocks wrote is irrelevant to this block: start from an arbitrary buffer content
				if d, ok := envByName(gst, "dAtA", lit.End()); ok {
					if dv := d.(SliceV); dv.Region != "" {
						gst.heap[dv.Region] = c.freshRaw("dAtA_at_block", c.byteArrSort())
					}
				}
			}
			e.cur, e.a0 = g, a0
			save := c.unit
			c.unit = u.Name + "/" + vr.tag + name
			c.loopN = 0
			if !o.cut {
				c.noSafeNil = true
			}
			gf := c.execBlock(g.stmts, gst)
			c.unit = save
			e.cur = nil
			vend := c.one(gf)
			if vr.tag == "" {
				end = vend
			}
			if vend == nil {
				continue
			}
			if o.cut {
				a1, ok := vend.env[e.accObj].(Scalar)
				if !ok {
					panic(unsupported{"accumulator lost in block " + name})
				}
				goal := fmt.Sprintf("(= %s (+ %s %s))", a1.T, a0, fs)
				text := "n' == n + FieldSize_" + name + "(x)"
				if closure == "marshal" {
					goal = fmt.Sprintf("(= %s %s)", a1.T, rest)
					text = "i' == i - FieldSize_" + name + "(x): the block writes exactly the bytes size counted"
				}
				c.addObl(Obl{Name: fmt.Sprintf("%s/%s%s/cut", u.Name, vr.tag, name), Kind: "cut", Guard: vend.guard, Goal: goal, Pos: c.pos(g.stmts[0].Pos()), Text: text})
				if o.content && closure == "marshal" && vr.tag == "" {
					e.singularContent(u, base, vend, g, a1.T, fs, c.pos(g.stmts[0].Pos()))
					e.packedHeader(u, base, vend, g, a1.T, c.pos(g.stmts[0].Pos()))
				}
				if o.unknown && name == "unknownFields" && closure == "marshal" {
					if d, ok := envByName(vend, "dAtA", lit.End()); ok {
						dv := d.(SliceV)
						uf := c.loadField(vend, e.x, "unknownFields").(SliceV)
						k := c.fresh("k", c.idx())
						goal := implies(and("(<= 0 "+k+")", "(< "+k+" "+uf.Len+")"), "(= (select "+c.sliceArr(vend, dv)+" "+c.addIdx(dv.Off, c.addIdx(a1.T, k))+") (select "+c.sliceArr(vend, uf)+" "+c.addIdx(uf.Off, k)+"))")
						c.addObl(Obl{Name: u.Name + "/unknownFields/ensures[bytes copied verbatim]", Kind: "ensures", Guard: vend.guard, Goal: goal, Pos: c.pos(g.stmts[0].Pos()), Text: "forall k < len(unknown): dAtA[i'+k] == unknown[k]"})
					}
				}
			}
		}
		if end == nil {
			continue
		}
		// heap effects (none expected) carry forward
		base = base.clone()
		base.heap = end.heap
	}
	if !o.cut {
		var keep []*Obl
		for _, ob := range c.obls {
			if !(strings.HasPrefix(ob.Kind, "safe.") || strings.HasPrefix(ob.Kind, "loop.") || ob.Kind == "unwind" || ob.Kind == "requires@call") {
				keep = append(keep, ob)
			}
		}
		c.obls = keep
	}
	// error returns inside blocks (nested marshal errors) are fine; explicit panics are not
	if o.cut {
		for i, pr := range c.panics {
			c.addObl(Obl{Name: fmt.Sprintf("%s/unreachable-panic#%d", u.Name, i+1), Kind: "unreachable-panic", Guard: pr.St.guard, Goal: "false", Pos: c.pos(pr.Pos), Text: "explicit panic is unreachable"})
		}
	}
	_ = nPro
	// epilogue
	if o.cut {
		est := base.clone()
		if closure == "size" {
			nf := c.freshRaw("n_final", "Int")
			c.assume("(and (>= " + nf + " 0) (<= " + nf + " " + twoTo62 + "))")
			est.env[e.accObj] = Scalar{nf, c.idx()}
			before := len(c.rets)
			c.execBlock(epi, est)
			for i, r := range c.rets[before:] {
				if out, ok := r.Vals[0].(StructV); ok {
					if sz, ok := out.F["Size"].(Scalar); ok {
						c.addObl(Obl{Name: fmt.Sprintf("%s/epilogue/ensures[Size is the accumulated n]@ret%d", u.Name, i+1), Kind: "ensures", Guard: r.St.guard, Goal: "(= " + sz.T + " " + nf + ")", Pos: c.pos(r.Pos), Text: "result.Size == n"})
					}
				}
			}
		} else {
			c.content = true
			est.env[e.accObj] = Scalar{"0", c.idx()}
			in := c.entry.env[c.info.Defs[lit.Type.Params.List[0].Names[0]]].(StructV).F["Buf"].(SliceV)
			d, _ := envByName(est, "dAtA", lit.End())
			dv := d.(SliceV)
			before := len(c.rets)
			save := c.unit
			c.unit = u.Name + "/epilogue"
			c.execBlock(epi, est)
			c.unit = save
			for i, r := range c.rets[before:] {
				out, ok := r.Vals[0].(StructV)
				if !ok {
					continue
				}
				b, ok := out.F["Buf"].(SliceV)
				if !ok {
					continue
				}
				k := c.fresh("k", c.idx())
				ra, ia, da := c.sliceArr(r.St, b), c.sliceArr(c.entry, in), c.sliceArr(r.St, dv)
				goal := and("(= "+b.Len+" (+ "+in.Len+" "+dv.Len+"))",
					and(implies(and("(<= 0 "+k+")", "(< "+k+" "+in.Len+")"), "(= (select "+ra+" "+c.addIdx(b.Off, k)+") (select "+ia+" "+c.addIdx(in.Off, k)+"))"),
						implies(and("(<= 0 "+k+")", "(< "+k+" "+dv.Len+")"), "(= (select "+ra+" "+c.addIdx(b.Off, c.addIdx(in.Len, k))+") (select "+da+" "+c.addIdx(dv.Off, k)+"))")))
				c.addObl(Obl{Name: fmt.Sprintf("%s/epilogue/ensures[Buf == old(input.Buf) ++ dAtA]@ret%d", u.Name, i+1), Kind: "ensures", Guard: r.St.guard, Goal: goal, Pos: c.pos(r.Pos), Text: "the returned buffer is the caller's bytes, unchanged, followed by exactly the encoding"})
				if o.frame {
					bp := c.resolveProv(b.Prov)
					okProv := bp == "fresh" || bp == "input" || strings.HasPrefix(bp, "param")
					u.Grounds = append(u.Grounds, Ground{Name: fmt.Sprintf("%s/epilogue/provenance[result]@ret%d", u.Name, i+1), OK: okProv, Text: "returned bytes are the fresh dAtA or the caller's buffer, never memory of the message (provenance " + b.Prov + ")"})
				}
			}
		}
	}
	defer func() {
		if o.keep == nil || u.Ctx == nil {
			return
		}
		var keep []*Obl
		for _, ob := range c.obls {
			if ob.Kind == "cover" || ob.Kind == "canary" || o.keep(ob.Name, ob.Kind) {
				keep = append(keep, ob)
			}
		}
		c.obls = keep
		var kg []Ground
		for _, g := range u.Grounds {
			if o.keep(g.Name, "ground") {
				kg = append(kg, g)
			}
		}
		u.Grounds = kg
	}()
	if o.frame {
		n := 0
		for _, s := range c.stores {
			if strings.HasPrefix(s.Key, "fld:") {
				n++
				c.addObl(Obl{Name: fmt.Sprintf("%s/frame[message not written]#%d", u.Name, n), Kind: "frame", Guard: s.Guard, Goal: "false", Pos: s.Pos, Text: closure + " performs no store to a field of a message (" + s.Key + ")"})
			}
		}
		u.Grounds = append(u.Grounds, Ground{Name: u.Name + "/frame[stores to message fields]", OK: n == 0, Text: fmt.Sprintf("%s contains no statement that stores to a field reachable from the message (%d found)", closure, n)})
	}
	return
}

// comparatorObligation: the less function handed to sort.Slice is the strict key order of the wire format
func (e *smEngine) comparatorObligation(st *State, fl *ast.FuncLit, keys ListV, call *ast.CallExpr) {
	c := e.c
	if len(fl.Type.Params.List) == 0 {
		return
	}
	var ps []*ast.Ident
	for _, f := range fl.Type.Params.List {
		ps = append(ps, f.Names...)
	}
	if len(ps) != 2 {
		return
	}
	sub := st.clone()
	i, j := c.fresh("ci", c.idx()), c.fresh("cj", c.idx())
	c.assume(and(and("(<= 0 "+i+")", "(< "+i+" "+keys.Len+")"), and("(<= 0 "+j+")", "(< "+j+" "+keys.Len+")")))
	sub.env[c.info.Defs[ps[0]]] = Scalar{i, c.idx()}
	sub.env[c.info.Defs[ps[1]]] = Scalar{j, c.idx()}
	savedRets := c.rets
	c.rets = nil
	c.depth++
	c.execBlock(fl.Body.List, sub)
	c.depth--
	rets := c.rets
	c.rets = savedRets
	s, ok := c.sortOf(keys.ElemT)
	if !ok {
		return // string keys: comparison abstracted (sort.Strings is the usual path)
	}
	a := "(select " + keys.Elems + " " + i + ")"
	b := "(select " + keys.Elems + " " + j + ")"
	var want string
	switch {
	case s.K == "bool":
		want = and(not(a), b)
	case s.Sg:
		want = "(bvslt " + a + " " + b + ")"
	default:
		want = "(bvult " + a + " " + b + ")"
	}
	for k, r := range rets {
		if len(r.Vals) != 1 {
			continue
		}
		res := r.Vals[0].(Scalar)
		c.addObl(Obl{Name: fmt.Sprintf("%s/comparator[== KeyLess]@ret%d", c.unit, k+1), Kind: "ensures", Guard: r.St.guard, Goal: "(= " + res.T + " " + want + ")", Pos: c.pos(call.Pos()), Text: "sort comparator is the strict key order (bool: false < true; signed/unsigned numeric order)"})
	}
}
