package main

// Contract files: comment-only Go files (build tag verif) holding //@ lines; parser and spec-expression evaluator.

import (
	"fmt"
	"go/ast"
	"go/constant"
	"go/parser"
	"go/token"
	"go/types"
	"math/big"
	"regexp"
	"strconv"
	"strings"
)

type SpecNode interface{}
type QuantNode struct {
	Forall bool
	Var    string
	Lo, Hi SpecNode
	Body   SpecNode
}
type ImplNode struct{ A, B SpecNode }
type IffNode struct{ A, B SpecNode }
type GoNode struct{ E ast.Expr }
type AndNode struct{ L []SpecNode }
type NotNode struct{ A SpecNode }

type Clause struct {
	Label string
	Text  string
	Node  SpecNode
}

type FuncSpec struct {
	Pkg        string // package path
	Name       string // "Sov" or "Recv.Method"
	Mode       string
	Requires   []*Clause
	Ensures    []*Clause
	PanicsWhen []*Clause
	NoPanic    bool
	Inline     bool
	Pure       bool
	Trusted    string
	Extern     bool
	Assigns    []string
	Loops      map[int]*LoopSpec
	Bounded    []string
	File       string
	Line       int
	EmittedBy  string
	Family     string
	Props      []string
	VerifyBody bool
	SafetyKeep []string // with NoSafety: the safety obligation kinds (suffix after "safe.") that are still claimed
	NoSafety   bool     // only the stated clauses are proved; the zero-annotation safety sweep is not claimed
	Decreases  *Clause
	Rank       int
	Asserts    []*AssertClause
	ResultOf   []string
}

type Lemma struct {
	Pkg, Name string
	Mode      string
	Vars      []string // "x:uint64"
	Clause    *Clause
	Prop      string
}

type Contracts struct {
	NonNilGlobals map[string]bool
	Funcs         map[string]*FuncSpec // key: pkgpath.Name
	Lemmas        []*Lemma
	Families      []*FuncSpec
	Lines         int
}

func specKey(pkg, name string) string { return pkg + "." + name }

// assert[label] at `statement text`: E — an inline assertion attached to the first simple statement whose source
// contains the text: checked after it (before it for continue/break/return)
var assertRe = regexp.MustCompile("^assert(\\[[^\\]]*\\])?\\s+at\\s+`([^`]+)`\\s*:\\s*(.*)$")

type AssertClause struct {
	Clause
	At string
}

var clauseRe = regexp.MustCompile(`^(requires|ensures|invariant|decreases)(\[[^\]]*\])?\s+(.*)$`)

func parseContracts(pkgPath, file string, comments []*ast.CommentGroup, fset *token.FileSet, into *Contracts) error {
	var cur *FuncSpec
	for _, cg := range comments {
		for _, cm := range cg.List {
			txt := cm.Text
			if !strings.HasPrefix(txt, "//@") {
				continue
			}
			line := fset.Position(cm.Pos()).Line
			l := strings.TrimSpace(txt[3:])
			if l == "" {
				continue
			}
			into.Lines++
			errf := func(f string, a ...interface{}) error {
				return fmt.Errorf("%s:%d: %s", file, line, fmt.Sprintf(f, a...))
			}
			switch {
			case strings.HasPrefix(l, "func ") || strings.HasPrefix(l, "extern "):
				ext := strings.HasPrefix(l, "extern ")
				name := strings.TrimSpace(l[strings.Index(l, " ")+1:])
				cur = &FuncSpec{Pkg: pkgPath, Name: name, Loops: map[int]*LoopSpec{}, File: file, Line: line, Extern: ext}
				if ext {
					// extern pkg/path.Func or pkg/path.Type.Method
					i := strings.LastIndex(name, "/")
					j := strings.Index(name[i+1:], ".")
					cur.Pkg, cur.Name = name[:i+1+j], name[i+1+j+1:]
					cur.Trusted = "external function: contract assumed"
				}
				into.Funcs[specKey(cur.Pkg, cur.Name)] = cur
			case strings.HasPrefix(l, "global-nonnil "):
				if into.NonNilGlobals == nil {
					into.NonNilGlobals = map[string]bool{}
				}
				into.NonNilGlobals[strings.TrimSpace(l[len("global-nonnil "):])] = true
				cur = nil
			case strings.HasPrefix(l, "emitted-by "):
				rest := strings.TrimSpace(l[len("emitted-by "):])
				parts := strings.SplitN(rest, ":", 2)
				if len(parts) != 2 {
					return errf("emitted-by needs 'template: family'")
				}
				cur = &FuncSpec{Pkg: pkgPath, Name: "family:" + strings.TrimSpace(parts[1]), EmittedBy: strings.TrimSpace(parts[0]), Family: strings.TrimSpace(parts[1]), Loops: map[int]*LoopSpec{}, File: file, Line: line}
				into.Families = append(into.Families, cur)
			case strings.HasPrefix(l, "lemma "):
				// lemma name (x:uint64, s:int32) mode bv: E
				rest := l[len("lemma "):]
				i := strings.Index(rest, ":")
				for i >= 0 && strings.Count(rest[:i], "(") != strings.Count(rest[:i], ")") {
					j := strings.Index(rest[i+1:], ":")
					if j < 0 {
						i = -1
						break
					}
					i += 1 + j
				}
				if i < 0 {
					return errf("lemma needs 'name (vars) [mode m]: expr'")
				}
				head, body := strings.TrimSpace(rest[:i]), strings.TrimSpace(rest[i+1:])
				lm := &Lemma{Pkg: pkgPath, Mode: "bv"}
				if k := strings.Index(head, " property "); k >= 0 {
					lm.Prop = strings.TrimSpace(head[k+10:])
					head = strings.TrimSpace(head[:k])
				}
				if k := strings.Index(head, " mode "); k >= 0 {
					lm.Mode = strings.TrimSpace(head[k+6:])
					head = strings.TrimSpace(head[:k])
				}
				if k := strings.Index(head, "("); k >= 0 {
					vs := strings.TrimSuffix(strings.TrimSpace(head[k+1:]), ")")
					for _, v := range strings.Split(vs, ",") {
						if v = strings.TrimSpace(v); v != "" {
							lm.Vars = append(lm.Vars, strings.ReplaceAll(v, " ", ""))
						}
					}
					head = strings.TrimSpace(head[:k])
				}
				lm.Name = head
				n, err := parseSpec(body)
				if err != nil {
					return errf("%v", err)
				}
				lm.Clause = &Clause{Label: head, Text: body, Node: n}
				into.Lemmas = append(into.Lemmas, lm)
				cur = nil
			default:
				if cur == nil {
					return errf("clause outside a func block: %s", l)
				}
				if err := parseClauseLine(cur, l); err != nil {
					return errf("%v", err)
				}
			}
		}
	}
	return nil
}

func parseClauseLine(fs *FuncSpec, l string) error {
	switch {
	case strings.HasPrefix(l, "mode "):
		fs.Mode = strings.TrimSpace(l[5:])
		return nil
	case strings.HasPrefix(l, "property "):
		for _, a := range strings.Split(l[9:], ",") {
			fs.Props = append(fs.Props, strings.TrimSpace(a))
		}
		return nil
	case l == "verify-body":
		fs.VerifyBody = true
		return nil
	case l == "nopanic":
		fs.NoPanic = true
		return nil
	case strings.HasPrefix(l, "decreases "):
		// decreases E [rank N]: termination measure of a (mutually) recursive function, lexicographic (E, rank)
		rest := strings.TrimSpace(l[len("decreases "):])
		fs.Rank = 0
		if i := strings.LastIndex(rest, " rank "); i >= 0 {
			fmt.Sscan(strings.TrimSpace(rest[i+6:]), &fs.Rank)
			rest = strings.TrimSpace(rest[:i])
		}
		n, err := parseSpec(rest)
		if err != nil {
			return err
		}
		fs.Decreases = &Clause{Label: "decreases", Text: rest, Node: n}
		return nil
	case strings.HasPrefix(l, "returns-result-of "):
		// on every path through a call of the named function, this function returns what that call returned
		fs.ResultOf = append(fs.ResultOf, strings.TrimSpace(strings.TrimPrefix(l, "returns-result-of ")))
		return nil
	case l == "no-safety":
		fs.NoSafety = true
		return nil
	case strings.HasPrefix(l, "no-safety except "):
		fs.NoSafety = true
		fs.SafetyKeep = strings.Fields(strings.TrimPrefix(l, "no-safety except "))
		return nil
	case l == "inline":
		fs.Inline = true
		return nil
	case l == "pure":
		fs.Pure = true
		return nil
	case strings.HasPrefix(l, "trusted"):
		fs.Trusted = strings.TrimSpace(l[7:])
		if fs.Trusted == "" {
			fs.Trusted = "contract assumed"
		}
		return nil
	case strings.HasPrefix(l, "bounded"):
		fs.Bounded = append(fs.Bounded, strings.TrimSpace(l[7:]))
		return nil
	case strings.HasPrefix(l, "note "):
		return nil
	case strings.HasPrefix(l, "assigns "):
		for _, a := range strings.Split(l[8:], ",") {
			fs.Assigns = append(fs.Assigns, strings.TrimSpace(a))
		}
		return nil
	case strings.HasPrefix(l, "panics when "):
		txt := strings.TrimSpace(l[len("panics when "):])
		n, err := parseSpec(txt)
		if err != nil {
			return err
		}
		fs.PanicsWhen = append(fs.PanicsWhen, &Clause{Label: fmt.Sprint(len(fs.PanicsWhen) + 1), Text: txt, Node: n})
		return nil
	case strings.HasPrefix(l, "loop "):
		rest := l[5:]
		i := strings.Index(rest, ":")
		if i < 0 {
			return fmt.Errorf("loop clause needs 'loop N: ...'")
		}
		n, err := strconv.Atoi(strings.TrimSpace(rest[:i]))
		if err != nil {
			return err
		}
		ls := fs.Loops[n]
		if ls == nil {
			ls = &LoopSpec{}
			fs.Loops[n] = ls
		}
		body := strings.TrimSpace(rest[i+1:])
		switch {
		case strings.HasPrefix(body, "unroll "):
			k, err := strconv.Atoi(strings.TrimSpace(body[7:]))
			if err != nil {
				return err
			}
			ls.Unroll = k
		case strings.HasPrefix(body, "increases "):
			// increases E upto B: variant B - E, stated without subtraction (cheaper for bit-vector back ends)
			parts := strings.SplitN(body[len("increases "):], " upto ", 2)
			if len(parts) != 2 {
				return fmt.Errorf("increases needs 'increases E upto B'")
			}
			en, err := parseSpec(parts[0])
			if err != nil {
				return err
			}
			bn, err := parseSpec(parts[1])
			if err != nil {
				return err
			}
			ls.Increases = &Clause{Text: strings.TrimSpace(parts[0]), Node: en}
			ls.Upto = &Clause{Text: strings.TrimSpace(parts[1]), Node: bn}
		case strings.HasPrefix(body, "continues only if "):
			// a condition that holds whenever the loop body reaches its back edge (e.g. "the mapper did not answer")
			txt := strings.TrimSpace(body[len("continues only if "):])
			n, err := parseSpec(txt)
			if err != nil {
				return err
			}
			ls.ContinueIf = append(ls.ContinueIf, &Clause{Label: fmt.Sprint(len(ls.ContinueIf) + 1), Text: txt, Node: n})
		case strings.HasPrefix(body, "fails only if "):
			// a condition on the state at the start of an iteration that holds whenever that iteration returns an error
			txt := strings.TrimSpace(body[len("fails only if "):])
			n, err := parseSpec(txt)
			if err != nil {
				return err
			}
			ls.FailsOnlyIf = append(ls.FailsOnlyIf, &Clause{Label: fmt.Sprint(len(ls.FailsOnlyIf) + 1), Text: txt, Node: n})
		case strings.HasPrefix(body, "modifies "):
			for _, a := range strings.Split(body[9:], ",") {
				ls.Mods = append(ls.Mods, strings.TrimSpace(a))
			}
		default:
			m := clauseRe.FindStringSubmatch(body)
			if m == nil {
				return fmt.Errorf("bad loop clause %q", body)
			}
			node, err := parseSpec(m[3])
			if err != nil {
				return err
			}
			cl := &Clause{Label: strings.Trim(m[2], "[]"), Text: m[3], Node: node}
			if m[1] == "decreases" {
				ls.Decreases = cl
			} else {
				ls.Invs = append(ls.Invs, cl)
			}
		}
		return nil
	}
	if am := assertRe.FindStringSubmatch(l); am != nil {
		node, err := parseSpec(am[3])
		if err != nil {
			return fmt.Errorf("%q: %v", am[3], err)
		}
		lab := strings.Trim(am[1], "[]")
		if lab == "" {
			lab = fmt.Sprint(len(fs.Asserts) + 1)
		}
		fs.Asserts = append(fs.Asserts, &AssertClause{Clause: Clause{Label: lab, Text: am[3], Node: node}, At: am[2]})
		return nil
	}
	m := clauseRe.FindStringSubmatch(l)
	if m == nil {
		return fmt.Errorf("unknown clause %q", l)
	}
	node, err := parseSpec(m[3])
	if err != nil {
		return fmt.Errorf("%q: %v", m[3], err)
	}
	cl := &Clause{Label: strings.Trim(m[2], "[]"), Text: m[3], Node: node}
	switch m[1] {
	case "requires":
		if cl.Label == "" {
			cl.Label = fmt.Sprint(len(fs.Requires) + 1)
		}
		fs.Requires = append(fs.Requires, cl)
	case "ensures":
		if cl.Label == "" {
			cl.Label = fmt.Sprint(len(fs.Ensures) + 1)
		}
		fs.Ensures = append(fs.Ensures, cl)
	default:
		return fmt.Errorf("clause %s only valid inside loop N:", m[1])
	}
	return nil
}

// splitTop splits s at the first (right-assoc) top-level occurrence of op
func splitTop(s, op string) (string, string, bool) {
	depth := 0
	for i := 0; i+len(op) <= len(s); i++ {
		switch s[i] {
		case '(', '[', '{':
			depth++
		case ')', ']', '}':
			depth--
		case '"':
			j := strings.IndexByte(s[i+1:], '"')
			if j >= 0 {
				i += j + 1
			}
			continue
		}
		if depth == 0 && strings.HasPrefix(s[i:], op) {
			if op == "==>" && i > 0 && s[i-1] == '<' {
				continue
			}
			return strings.TrimSpace(s[:i]), strings.TrimSpace(s[i+len(op):]), true
		}
	}
	return "", "", false
}

var quantRe = regexp.MustCompile(`^(forall|exists)\s+(\w+)\s+in\s+\[`)

func parseSpec(s string) (SpecNode, error) {
	s = strings.TrimSpace(s)
	if m := quantRe.FindStringSubmatch(s); m != nil {
		rest := s[len(m[0]):]
		// lo , hi ) : body
		lo, rest2, ok := splitTop(rest, ",")
		if !ok {
			return nil, fmt.Errorf("quantifier range needs [lo, hi)")
		}
		// find matching ')' that closes the range at depth 0
		depth := 0
		end := -1
		for i := 0; i < len(rest2); i++ {
			switch rest2[i] {
			case '(', '[':
				depth++
			case ')', ']':
				if depth == 0 {
					end = i
				}
				depth--
			}
			if end >= 0 {
				break
			}
		}
		if end < 0 {
			return nil, fmt.Errorf("quantifier range not closed")
		}
		hi := rest2[:end]
		body := strings.TrimSpace(rest2[end+1:])
		if !strings.HasPrefix(body, ":") {
			return nil, fmt.Errorf("quantifier needs ': body'")
		}
		ln, err := parseSpec(lo)
		if err != nil {
			return nil, err
		}
		hn, err := parseSpec(hi)
		if err != nil {
			return nil, err
		}
		bn, err := parseSpec(body[1:])
		if err != nil {
			return nil, err
		}
		return &QuantNode{Forall: m[1] == "forall", Var: m[2], Lo: ln, Hi: hn, Body: bn}, nil
	}
	if a, b, ok := splitTop(s, "<==>"); ok {
		an, err := parseSpec(a)
		if err != nil {
			return nil, err
		}
		bn, err := parseSpec(b)
		if err != nil {
			return nil, err
		}
		return &IffNode{an, bn}, nil
	}
	if a, b, ok := splitTop(s, "==>"); ok {
		an, err := parseSpec(a)
		if err != nil {
			return nil, err
		}
		bn, err := parseSpec(b)
		if err != nil {
			return nil, err
		}
		return &ImplNode{an, bn}, nil
	}
	if strings.Contains(s, "==>") || strings.Contains(s, "forall ") || strings.Contains(s, "exists ") {
		if a, b, ok := splitTop(s, "&&"); ok {
			an, err := parseSpec(a)
			if err != nil {
				return nil, err
			}
			bn, err := parseSpec(b)
			if err != nil {
				return nil, err
			}
			return &AndNode{[]SpecNode{an, bn}}, nil
		}
	}
	// a parenthesised implication / quantifier
	if strings.HasPrefix(s, "(") && strings.HasSuffix(s, ")") && (strings.Contains(s, "==>") || strings.Contains(s, "forall ")) {
		depth := 0
		whole := true
		for i := 0; i < len(s)-1; i++ {
			switch s[i] {
			case '(', '[':
				depth++
			case ')', ']':
				depth--
			}
			if depth == 0 {
				whole = false
				break
			}
		}
		if whole {
			return parseSpec(s[1 : len(s)-1])
		}
	}
	e, err := parser.ParseExpr(s)
	if err != nil {
		return nil, fmt.Errorf("%q: %v", s, err)
	}
	return &GoNode{e}, nil
}

// ---------- evaluation ----------

type specLit struct{ V *big.Int }
type specNil struct{}

type SpecEnv struct {
	c       *Ctx
	st      *State
	entry   *State
	at      token.Pos
	idx     string
	binds   map[string]Val
	qvars   map[string]Val
	results []Val
	assume  bool // evaluating an assumption (quantifiers are kept, not skolemised)
}

func (e *SpecEnv) with(st *State) *SpecEnv {
	n := *e
	n.st = st
	return &n
}

func (c *Ctx) specBool(cl *Clause, env *SpecEnv) string {
	return c.specNodeBool(cl.Node, env)
}

func (c *Ctx) specVal(cl *Clause, env *SpecEnv) Val {
	g, ok := cl.Node.(*GoNode)
	if !ok {
		panic(unsupported{"value clause must be a plain expression: " + cl.Text})
	}
	v := env.eval(g.E)
	if l, isL := v.(specLit); isL {
		return Scalar{c.lit(l.V, c.idx()), c.idx()}
	}
	return v
}

func (c *Ctx) specNodeBool(n SpecNode, env *SpecEnv) string {
	switch x := n.(type) {
	case *GoNode:
		v := env.eval(x.E)
		s, ok := v.(Scalar)
		if !ok || s.S.K != "bool" {
			panic(unsupported{fmt.Sprintf("contract expression %s is not boolean (%T)", types.ExprString(x.E), v)})
		}
		return s.T
	case *AndNode:
		r := "true"
		for _, n := range x.L {
			r = and(r, c.specNodeBool(n, env))
		}
		return r
	case *ImplNode:
		a := c.specNodeBoolFlip(x.A, env)
		return implies(a, c.specNodeBool(x.B, env))
	case *IffNode:
		a := c.specNodeBoolFlip(x.A, env)
		b := c.specNodeBoolFlip(x.B, env)
		return "(= " + a + " " + b + ")"
	case *QuantNode:
		lo := c.specNodeVal(x.Lo, env)
		hi := c.specNodeVal(x.Hi, env)
		is := c.idx()
		lo, hi = c.adaptLit(lo, is), c.adaptLit(hi, is)
		los, his := lo.(Scalar), hi.(Scalar)
		skolem := (x.Forall && !env.assume) || (!x.Forall && env.assume)
		ne := *env
		ne.qvars = map[string]Val{}
		for k, v := range env.qvars {
			ne.qvars[k] = v
		}
		if skolem {
			k := c.fresh(x.Var, is)
			ne.qvars[x.Var] = Scalar{k, is}
			rng := and(c.leIdx(los.T, k), c.ltIdx(k, his.T))
			body := c.specNodeBool(x.Body, &ne)
			if x.Forall {
				return implies(rng, body)
			}
			return and(rng, body)
		}
		// kept quantifier: no fresh definitions inside the body
		c.qn++
		k := fmt.Sprintf("%s_q%d", x.Var, c.qn)
		ne.qvars[x.Var] = Scalar{k, is}
		save := c.noDef
		c.noDef = true
		rng := and(c.leIdx(los.T, k), c.ltIdx(k, his.T))
		body := c.specNodeBool(x.Body, &ne)
		c.noDef = save
		pats := selectPatterns(body, k)
		q := "forall"
		inner := implies(rng, body)
		if !x.Forall {
			q = "exists"
			inner = and(rng, body)
		}
		if len(pats) > 0 {
			inner = "(! " + inner + " :pattern (" + pats[0] + "))"
		}
		return fmt.Sprintf("(%s ((%s %s)) %s)", q, k, is.smt(), inner)
	}
	panic(unsupported{"bad spec node"})
}

// antecedent position flips polarity for quantifier treatment
func (c *Ctx) specNodeBoolFlip(n SpecNode, env *SpecEnv) string {
	ne := *env
	ne.assume = !env.assume
	return c.specNodeBool(n, &ne)
}

func (c *Ctx) specNodeVal(n SpecNode, env *SpecEnv) Val {
	g, ok := n.(*GoNode)
	if !ok {
		panic(unsupported{"expected a plain expression"})
	}
	return env.eval(g.E)
}

func selectPatterns(body, k string) []string {
	var pats []string
	re := regexp.MustCompile(`\(select ([^\s()]+) ` + regexp.QuoteMeta(k) + `\)`)
	seen := map[string]bool{}
	for _, m := range re.FindAllString(body, -1) {
		if !seen[m] {
			seen[m] = true
			pats = append(pats, m)
		}
	}
	return pats
}

func (c *Ctx) adaptLit(v Val, s Sort) Val {
	if l, ok := v.(specLit); ok {
		if s.K == "bool" || s.K == "str" {
			panic(unsupported{"integer literal used as " + s.K})
		}
		if s.K == "i2b" {
			return Scalar{intLit(l.V), Sort{K: "int", W: 64, Sg: true}}
		}
		return Scalar{c.lit(l.V, s), s}
	}
	return v
}

var specConvTypes = map[string]types.Type{
	"int": types.Typ[types.Int], "int8": types.Typ[types.Int8], "int16": types.Typ[types.Int16], "int32": types.Typ[types.Int32], "int64": types.Typ[types.Int64],
	"uint": types.Typ[types.Uint], "uint8": types.Typ[types.Uint8], "byte": types.Typ[types.Uint8], "uint16": types.Typ[types.Uint16], "uint32": types.Typ[types.Uint32], "uint64": types.Typ[types.Uint64],
}

func (e *SpecEnv) eval(x ast.Expr) Val {
	c := e.c
	switch n := x.(type) {
	case *ast.ParenExpr:
		return e.eval(n.X)
	case *ast.BasicLit:
		switch n.Kind {
		case token.INT:
			v, ok := new(big.Int).SetString(strings.ReplaceAll(n.Value, "_", ""), 0)
			if !ok {
				panic(unsupported{"bad integer literal " + n.Value})
			}
			return specLit{v}
		case token.CHAR:
			r, _, _, _ := strconv.UnquoteChar(n.Value[1:len(n.Value)-1], '\'')
			return specLit{big.NewInt(int64(r))}
		case token.STRING:
			s, _ := strconv.Unquote(n.Value)
			return c.strConst(s)
		}
	case *ast.Ident:
		return e.ident(n)
	case *ast.UnaryExpr:
		v := e.eval(n.X)
		switch n.Op {
		case token.NOT:
			return Scalar{not(v.(Scalar).T), boolSort}
		case token.SUB:
			if l, ok := v.(specLit); ok {
				return specLit{new(big.Int).Neg(l.V)}
			}
			s := v.(Scalar)
			if s.S.K == "bv" {
				return Scalar{c.def("t", s.S, "(bvneg "+s.T+")"), s.S}
			}
			return Scalar{c.def("t", s.S, "(- "+s.T+")"), s.S}
		}
	case *ast.BinaryExpr:
		return e.binary(n)
	case *ast.CallExpr:
		return e.call(n)
	case *ast.SelectorExpr:
		if id, ok := n.X.(*ast.Ident); ok {
			if v, ok := e.pkgConst(id.Name, n.Sel.Name); ok {
				return v
			}
			// pkg.Var: a package-level variable of an imported package (the same symbolic value the code reads)
			for _, imp := range c.pkg.Types.Imports() {
				if imp.Name() == id.Name {
					if gv, ok := imp.Scope().Lookup(n.Sel.Name).(*types.Var); ok {
						if _, shadow := e.binds[id.Name]; !shadow {
							if types.Implements(gv.Type(), errorIface) {
								return c.errConst(gv) // sentinel errors are distinct constants, as in the code's own reads
							}
							return c.globalVar(e.st, gv)
						}
					}
				}
			}
		}
		base := e.eval(n.X)
		switch b := base.(type) {
		case PtrV:
			if b.Struct() == nil || fieldType(b.Struct(), n.Sel.Name) == nil {
				panic(unsupported{"contract: no field " + n.Sel.Name})
			}
			return c.loadField(e.st, b, n.Sel.Name)
		case StructV:
			if v, ok := b.F[n.Sel.Name]; ok {
				return v
			}
		case boxed:
			return c.loadField(e.st, b.P, n.Sel.Name)
		}
		panic(unsupported{fmt.Sprintf("contract: selector .%s on %T", n.Sel.Name, base)})
	case *ast.IndexExpr:
		base := e.eval(n.X)
		i := c.adaptLit(e.eval(n.Index), c.idx()).(Scalar)
		switch b := base.(type) {
		case SliceV:
			return Scalar{c.def("sel", c.byteSort(), fmt.Sprintf("(select %s %s)", c.sliceArr(e.st, b), c.addIdx(b.Off, i.T))), Sort{K: "bv", W: 8}}
		case ListV:
			return c.listElem(e.st, b, i.T)
		}
		panic(unsupported{fmt.Sprintf("contract: index on %T", base)})
	case *ast.CompositeLit:
		// pkg.T{} : the zero value of a struct type of an imported package
		if len(n.Elts) == 0 {
			if sel, ok := n.Type.(*ast.SelectorExpr); ok {
				if id, ok := sel.X.(*ast.Ident); ok {
					look := func(p *types.Package) Val {
						if p != nil && p.Name() == id.Name {
							if tn, ok := p.Scope().Lookup(sel.Sel.Name).(*types.TypeName); ok {
								v := c.zeroValue(tn.Type())
								if sv, ok := v.(StructV); ok {
									sv.T = tn.Type()
									return sv
								}
								return v
							}
						}
						return nil
					}
					for _, imp := range c.pkg.Types.Imports() {
						if v := look(imp); v != nil {
							return v
						}
					}
				}
			}
		}
	}
	panic(unsupported{"contract: unsupported expression " + types.ExprString(x)})
}

func (e *SpecEnv) pkgConst(pkgName, name string) (Val, bool) {
	c := e.c
	for _, imp := range c.pkg.Types.Imports() {
		if imp.Name() == pkgName {
			if o := imp.Scope().Lookup(name); o != nil {
				if k, ok := o.(*types.Const); ok {
					return e.constVal(k), true
				}
			}
		}
	}
	// any loaded package by name (contract files cannot import)
	if c.prog != nil {
		for _, p := range c.prog.all {
			if p.Types != nil && p.Types.Name() == pkgName {
				if o := p.Types.Scope().Lookup(name); o != nil {
					if k, ok := o.(*types.Const); ok {
						return e.constVal(k), true
					}
				}
			}
		}
	}
	return nil, false
}

func (e *SpecEnv) constVal(k *types.Const) Val {
	c := e.c
	if k.Val().Kind() == constant.Int {
		bi, _ := new(big.Int).SetString(k.Val().ExactString(), 10)
		if b, ok := k.Type().Underlying().(*types.Basic); ok && b.Info()&types.IsUntyped != 0 {
			return specLit{bi}
		}
		if s, ok := c.sortOf(k.Type()); ok {
			return Scalar{c.lit(bi, s), s}
		}
		return specLit{bi}
	}
	if v, ok := c.constToVal(k.Val(), k.Type()); ok {
		return v
	}
	panic(unsupported{"contract: constant " + k.Name()})
}

func (e *SpecEnv) ident(n *ast.Ident) Val {
	c := e.c
	switch n.Name {
	case "true":
		return Scalar{"true", boolSort}
	case "false":
		return Scalar{"false", boolSort}
	case "nil":
		return specNil{}
	case "result":
		if len(e.results) > 0 {
			return e.results[0]
		}
	case "rangeidx":
		return Scalar{e.idx, c.idx()}
	}
	if strings.HasPrefix(n.Name, "result") && len(n.Name) == 7 && n.Name[6] >= '0' && n.Name[6] <= '9' {
		if i := int(n.Name[6] - '0'); i < len(e.results) {
			return e.results[i]
		}
	}
	if v, ok := e.qvars[n.Name]; ok {
		return v
	}
	if v, ok := e.binds[n.Name]; ok {
		return v
	}
	if v, ok := c.specEnv["ghost:"+n.Name]; ok {
		return v
	}
	// local variable visible at the clause's program point
	if e.at.IsValid() {
		if sc := c.pkg.Types.Scope().Innermost(e.at); sc != nil {
			if _, o := sc.LookupParent(n.Name, e.at); o != nil {
				if v, ok := e.st.env[o]; ok {
					return v
				}
				if k, ok := o.(*types.Const); ok {
					return e.constVal(k)
				}
			}
		}
	}
	var found Val
	cnt := 0
	for o, v := range e.st.env {
		if o.Name() == n.Name {
			found = v
			cnt++
		}
	}
	if cnt == 1 {
		return found
	}
	if o := c.pkg.Types.Scope().Lookup(n.Name); o != nil {
		if k, ok := o.(*types.Const); ok {
			return e.constVal(k)
		}
		if gv, ok := o.(*types.Var); ok {
			return c.globalVar(e.st, gv)
		}
	}
	panic(unsupported{"contract: unknown identifier " + n.Name})
}

func (e *SpecEnv) binary(n *ast.BinaryExpr) Val {
	c := e.c
	if n.Op == token.LAND || n.Op == token.LOR {
		a := e.eval(n.X).(Scalar)
		b := e.eval(n.Y).(Scalar)
		if n.Op == token.LAND {
			return Scalar{and(a.T, b.T), boolSort}
		}
		return Scalar{or(a.T, b.T), boolSort}
	}
	av, bv := e.eval(n.X), e.eval(n.Y)
	// nil comparisons
	isNil := func(v Val) bool { _, ok := v.(specNil); return ok }
	if isNil(av) || isNil(bv) {
		o := av
		if isNil(av) {
			o = bv
		}
		var t string
		switch p := o.(type) {
		case PtrV:
			t = "(= " + p.Ref + " 0)"
		case ErrV:
			t = "(= " + p.T + " 0)"
		case IfaceV:
			t = "(= " + p.Tag + " 0)"
		case SliceV:
			t = p.Nil
		case ListV:
			t = p.Nil
		case MapV:
			t = p.Nil
		case specNil:
			t = "true"
		default:
			panic(unsupported{fmt.Sprintf("contract: nil comparison with %T", o)})
		}
		if n.Op == token.NEQ {
			t = not(t)
		}
		return Scalar{t, boolSort}
	}
	switch a := av.(type) {
	case PtrV:
		if b, ok := bv.(PtrV); ok {
			t := "(= " + a.Ref + " " + b.Ref + ")"
			if n.Op == token.NEQ {
				t = not(t)
			}
			return Scalar{t, boolSort}
		}
	case ErrV:
		if b, ok := bv.(ErrV); ok {
			t := "(= " + a.T + " " + b.T + ")"
			if n.Op == token.NEQ {
				t = not(t)
			}
			return Scalar{t, boolSort}
		}
	case SliceV:
		if b, ok := bv.(SliceV); ok {
			if n.Op == token.ADD {
				return c.concatStr(e.st, a, b)
			}
			return e.seqEqual(n.Op, a, b)
		}
	case IfaceV:
		if b, ok := bv.(IfaceV); ok {
			t := and("(= "+a.Tag+" "+b.Tag+")", "(= "+a.Ref+" "+b.Ref+")")
			if n.Op == token.NEQ {
				t = not(t)
			}
			return Scalar{t, boolSort}
		}
	}
	la, aLit := av.(specLit)
	lb, bLit := bv.(specLit)
	if aLit && bLit {
		r := new(big.Int)
		switch n.Op {
		case token.ADD:
			return specLit{r.Add(la.V, lb.V)}
		case token.SUB:
			return specLit{r.Sub(la.V, lb.V)}
		case token.MUL:
			return specLit{r.Mul(la.V, lb.V)}
		case token.SHL:
			return specLit{r.Lsh(la.V, uint(lb.V.Int64()))}
		case token.QUO:
			return specLit{r.Quo(la.V, lb.V)}
		}
		panic(unsupported{"contract: constant operator " + n.Op.String()})
	}
	if aLit {
		av = c.adaptLit(av, bv.(Scalar).S)
	}
	if bLit {
		if n.Op == token.SHL || n.Op == token.SHR {
			bv = Scalar{bvLit(lb.V, av.(Scalar).S.W), av.(Scalar).S}
		} else {
			bv = c.adaptLit(bv, av.(Scalar).S)
		}
	}
	a, ok1 := av.(Scalar)
	b, ok2 := bv.(Scalar)
	if !ok1 || !ok2 {
		panic(unsupported{fmt.Sprintf("contract: %s on %T and %T", n.Op, av, bv)})
	}
	// i2b behaves as a mathematical integer in contracts
	if a.S.K == "i2b" {
		a.S = Sort{K: "int", W: 64, Sg: true}
	}
	if b.S.K == "i2b" {
		b.S = Sort{K: "int", W: 64, Sg: true}
	}
	if a.S.K == "bool" && b.S.K == "bool" && (n.Op == token.EQL || n.Op == token.NEQ) {
		t := "(= " + a.T + " " + b.T + ")"
		if n.Op == token.NEQ {
			t = not(t)
		}
		return Scalar{t, boolSort}
	}
	if a.S.K != b.S.K || (a.S.K == "bv" && a.S.W != b.S.W) {
		// mixed widths: widen the narrower bit-vector, or lift bit-vectors to Int
		if a.S.K == "bv" && b.S.K == "bv" {
			if a.S.W < b.S.W {
				a = c.convertSort(a, Sort{K: "bv", W: b.S.W, Sg: a.S.Sg})
			} else {
				b = c.convertSort(b, Sort{K: "bv", W: a.S.W, Sg: b.S.Sg})
			}
		} else if a.S.K == "bv" && b.S.K == "int" {
			a = c.convertSort(a, b.S)
		} else if a.S.K == "int" && b.S.K == "bv" {
			b = c.convertSort(b, a.S)
		} else {
			panic(unsupported{fmt.Sprintf("contract: sorts %v and %v in %s", a.S, b.S, types.ExprString(n))})
		}
	}
	if a.S.K == "int" {
		// contract integers are mathematical: no wrap-around
		var t string
		switch n.Op {
		case token.ADD:
			t = "(+ " + a.T + " " + b.T + ")"
		case token.SUB:
			t = "(- " + a.T + " " + b.T + ")"
		case token.MUL:
			t = "(* " + a.T + " " + b.T + ")"
		case token.QUO:
			t = "(div " + a.T + " " + b.T + ")"
		case token.REM:
			t = "(mod " + a.T + " " + b.T + ")"
		default:
			return c.binop(n.Op, a, b, e.st, n.Pos())
		}
		if c.noDef {
			return Scalar{t, Sort{K: "int", W: 0, Sg: true}}
		}
		return Scalar{c.defRaw("s", "Int", t), Sort{K: "int", W: 0, Sg: true}}
	}
	return c.binop(n.Op, a, b, e.st, n.Pos())
}

// seqEqual: extensional equality of byte sequences / strings in a contract: skolemised in goal position, quantified when assumed
func (e *SpecEnv) seqEqual(op token.Token, a, b SliceV) Val {
	c := e.c
	ida, oka := c.strID(a)
	idb, okb := c.strID(b)
	var t string
	if oka && okb {
		t = "false"
		if ida == idb {
			t = "true"
		}
	} else if oka || okb {
		t = c.strIsConst(e.st, a, b, oka, ida, idb)
	} else {
		aa, ba := c.sliceArr(e.st, a), c.sliceArr(e.st, b)
		if aa == ba && a.Off == b.Off {
			t = "(= " + a.Len + " " + b.Len + ")"
		} else {
			is := c.idx()
			positive := (op == token.EQL) != e.assume
			if positive {
				k := c.fresh("k", is)
				t = and("(= "+a.Len+" "+b.Len+")", implies(and(c.leIdx(c.ilit(0), k), c.ltIdx(k, a.Len)), "(= (select "+aa+" "+c.addIdx(a.Off, k)+") (select "+ba+" "+c.addIdx(b.Off, k)+"))"))
			} else {
				c.qn++
				k := fmt.Sprintf("k_q%d", c.qn)
				t = and("(= "+a.Len+" "+b.Len+")", fmt.Sprintf("(forall ((%s %s)) (=> %s (= (select %s %s) (select %s %s))))", k, is.smt(), and(c.leIdx(c.ilit(0), k), c.ltIdx(k, a.Len)), aa, c.addIdx(a.Off, k), ba, c.addIdx(b.Off, k)))
			}
		}
	}
	if op == token.NEQ {
		t = not(t)
	}
	return Scalar{t, boolSort}
}

// methodCall: x.M(args) in a contract, for pure library methods and pure-contracted functions: the functional value
func (e *SpecEnv) methodCall(n *ast.CallExpr, sel *ast.SelectorExpr) (Val, bool) {
	c := e.c
	recv := e.eval(sel.X)
	var t types.Type
	switch r := recv.(type) {
	case IfaceV:
		t = r.T
	case StructV:
		t = r.T
	case PtrV:
		if r.Named != nil {
			t = types.NewPointer(r.Named)
		}
	}
	if t == nil {
		return nil, false
	}
	obj, _, _ := types.LookupFieldOrMethod(t, true, c.pkg.Types, sel.Sel.Name)
	fn, ok := obj.(*types.Func)
	if !ok {
		return nil, false
	}
	key := funcKey(fn)
	args := []Val{recv}
	binds := map[string]Val{}
	sig := fn.Type().(*types.Signature)
	for i, a := range n.Args {
		v := e.eval(a)
		args = append(args, v)
		if i < sig.Params().Len() {
			binds[sig.Params().At(i).Name()] = v
		}
	}
	if sig.Recv() != nil && sig.Recv().Name() != "" {
		binds[sig.Recv().Name()] = recv
	}
	binds["$recv"] = recv
	single := func(res []Val) Val {
		if len(res) == 1 {
			return res[0]
		}
		return TupleV(res)
	}
	if spec := c.prog.contracts.Funcs[key]; spec != nil && spec.Pure {
		return single(c.pureApply("spec:"+specKey(spec.Pkg, spec.Name), args, sig.Results(), e.st)), true
	}
	if fn.Pkg() != nil && purePkgs[fn.Pkg().Path()] {
		return single(c.pureApply(key, args, sig.Results(), e.st)), true
	}
	return nil, false
}

func (e *SpecEnv) call(n *ast.CallExpr) Val {
	c := e.c
	if sel, ok := n.Fun.(*ast.SelectorExpr); ok {
		if id, isId := sel.X.(*ast.Ident); !isId || id.Name != "spec" {
			if v, ok := e.methodCall(n, sel); ok {
				return v
			}
		}
	}
	name := ""
	switch f := n.Fun.(type) {
	case *ast.Ident:
		name = f.Name
	case *ast.SelectorExpr:
		if id, ok := f.X.(*ast.Ident); ok && id.Name == "spec" {
			name = f.Sel.Name
		}
	}
	arg := func(i int) Val { return e.eval(n.Args[i]) }
	switch name {
	case "old":
		return e.with(e.entry).eval(n.Args[0])
	case "len", "cap":
		switch v := arg(0).(type) {
		case SliceV:
			if name == "cap" {
				return Scalar{v.Cap, c.idx()}
			}
			return Scalar{v.Len, c.idx()}
		case ListV:
			return Scalar{v.Len, c.idx()}
		case MapV:
			return Scalar{v.Len, c.idx()}
		}
		panic(unsupported{"contract: len of unmodelled value"})
	}
	if name == "string" {
		return arg(0)
	}
	if name == "first" {
		if t, ok := arg(0).(TupleV); ok && len(t) > 0 {
			return t[0]
		}
		return arg(0)
	}
	if name == "second" {
		if t, ok := arg(0).(TupleV); ok && len(t) > 1 {
			return t[1]
		}
		panic(unsupported{"contract: second() of a value that is not a pair"})
	}
	if t, ok := specConvTypes[name]; ok {
		v := arg(0)
		ts, _ := c.sortOf(t)
		if l, isL := v.(specLit); isL {
			return Scalar{c.lit(l.V, ts), ts}
		}
		return c.convertSort(v.(Scalar), ts)
	}
	if fn, ok := specFuncs[name]; ok {
		args := make([]Val, len(n.Args))
		for i := range n.Args {
			args[i] = arg(i)
		}
		return fn(e, args)
	}
	panic(unsupported{"contract: unknown function " + types.ExprString(n.Fun)})
}
