package main

// C12 (generator total; output compiles): the bounded part — the working-tree plugin is run on every corpus file and on
// the checked-in schemas; each request must be answered with sources, and the sources must type-check.
// (The deductive part — contracts on findFeatures, GenerateFile, rewriteMessageField — is added by handParts.)

import (
	"encoding/base64"
	"fmt"
	"golang.org/x/tools/go/packages"
	"strings"

	"google.golang.org/protobuf/proto"
	"google.golang.org/protobuf/types/descriptorpb"
	"google.golang.org/protobuf/types/pluginpb"
)

func init() {
	checks["C12"] = func(rep *Report) error {
		plugin, err := buildPlugin()
		if err != nil {
			return err
		}
		corpus := corpusFiles()
		all := map[string]*descriptorpb.FileDescriptorProto{}
		for _, fd := range corpus {
			all[fd.GetName()] = fd
		}
		for _, fd := range corpus {
			req := &pluginpb.CodeGeneratorRequest{FileToGenerate: []string{fd.GetName()}, Parameter: proto.String("features=protoc+fast"), ProtoFile: topoFiles(all, []string{fd.GetName()})}
			files, perr, err := runPlugin(plugin, req)
			detail := perr
			if err != nil {
				detail = err.Error()
			}
			if i := strings.Index(detail, "\n"); i > 0 {
				detail = detail[:i]
			}
			rb, _ := proto.Marshal(req)
			rep.Grounds = append(rep.Grounds, Ground{Name: "plugin/" + fd.GetName() + "/answers-with-sources", OK: err == nil && perr == "" && len(files) == 1,
				Text: "the plugin answers a valid proto3 request with generated sources (no error, no crash)", Detail: detail,
				Tag: map[string]string{"request_b64": base64.StdEncoding.EncodeToString(rb), "kind": "plugin-request"}})
			// under the default paths=import the file is named after the Go import path of its go_package, not after the
			// directory of the .proto file
			imp := fd.GetOptions().GetGoPackage()
			if i := strings.Index(imp, ";"); i >= 0 {
				imp = imp[:i]
			}
			base := strings.TrimSuffix(fd.GetName()[strings.LastIndex(fd.GetName(), "/")+1:], ".proto")
			want := imp + "/" + base + ".pulsar.go"
			got := ""
			for n := range files {
				got = n
			}
			if err == nil && perr == "" && len(files) == 1 {
				rep.Grounds = append(rep.Grounds, Ground{Name: "plugin/" + fd.GetName() + "/file-name", OK: got == want,
					Text: "the generated file is named <Go import path>/<proto base name>.pulsar.go (paths=import)", Detail: fmt.Sprintf("got %q, want %q", got, want)})
			}
		}
		// negative configurations
		neg := func(name, param string, file *descriptorpb.FileDescriptorProto, gen bool, wantErr bool, wantFiles int) {
			req := &pluginpb.CodeGeneratorRequest{Parameter: proto.String(param), ProtoFile: topoFiles(map[string]*descriptorpb.FileDescriptorProto{file.GetName(): file}, []string{file.GetName()})}
			if gen {
				req.FileToGenerate = []string{file.GetName()}
			}
			files, perr, err := runPlugin(plugin, req)
			ok := err == nil && (perr != "") == wantErr && (wantErr || len(files) == wantFiles)
			rb, _ := proto.Marshal(req)
			rep.Grounds = append(rep.Grounds, Ground{Name: "plugin/config/" + name, OK: ok, Text: fmt.Sprintf("request with parameter %q: error expected=%v, files expected=%d", param, wantErr, wantFiles), Detail: fmt.Sprintf("error=%q files=%d crash=%v", perr, len(files), err),
				Tag: map[string]string{"request_b64": base64.StdEncoding.EncodeToString(rb), "kind": "plugin-request"}})
		}
		small := corpus[0]
		neg("unknown-feature", "features=bogus", small, true, true, 0)
		neg("unknown-feature-mixed", "features=fast+bogus", small, true, true, 0)
		p2 := proto.Clone(small).(*descriptorpb.FileDescriptorProto)
		p2.Syntax = proto.String("proto2")
		p2.Name = proto.String("corpus/dep/dep2.proto")
		neg("proto2-file-produces-no-output", "features=protoc+fast", p2, true, false, 0)
		neg("file-not-requested-produces-no-output", "features=protoc+fast", small, false, false, 0)
		// a feature named twice (directly or through "all") is applied once: the answer equals the one for the plain selection
		same := func(name, paramA, paramB string) {
			run := func(param string) (map[string]string, string, error) {
				req := &pluginpb.CodeGeneratorRequest{Parameter: proto.String(param), FileToGenerate: []string{small.GetName()},
					ProtoFile: topoFiles(map[string]*descriptorpb.FileDescriptorProto{small.GetName(): small}, []string{small.GetName()})}
				return runPlugin(plugin, req)
			}
			fa, ea, ca := run(paramA)
			fb, eb, cb := run(paramB)
			ok := ca == nil && cb == nil && ea == "" && eb == "" && len(fa) == len(fb) && len(fa) > 0
			for k, v := range fa {
				if fb[k] != v {
					ok = false
				}
			}
			rep.Grounds = append(rep.Grounds, Ground{Name: "plugin/config/" + name, OK: ok, Text: fmt.Sprintf("parameter %q is answered exactly like %q (a feature selected twice is generated once)", paramA, paramB),
				Detail: fmt.Sprintf("errors %q / %q, files %d / %d", ea, eb, len(fa), len(fb))})
		}
		same("all-plus-fast-equals-all", "features=all+fast", "features=all")
		same("fast-named-twice", "features=fast+protoc+fast", "features=protoc+fast")
		same("feature-order-is-irrelevant", "features=fast+protoc", "features=protoc+fast")
		// what a file's generated code contains must not depend on the invocation it was generated in (one request per
		// file is how protoc drives plugins for packages spread over directories): needed for "the output works"
		rep.Grounds = append(rep.Grounds, independenceGrounds(plugin, false)...)
		// type-check of everything generated (one scratch module)
		if fts, err := loadFreshTargets(rep); err != nil {
			rep.Grounds = append(rep.Grounds, Ground{Name: "compile/fresh-module", OK: false, Text: "generated sources type-check", Detail: err.Error()})
		} else {
			// "… and works": the type tables of the freshly generated packages pair every Go type and every type reference
			// with its own descriptor (a package whose tables are shifted compiles and loads, and then answers with
			// the wrong types)
			seen := map[*packages.Package]bool{}
			for _, t := range fts {
				if !seen[t.ms.Pkg] {
					seen[t.ms.Pkg] = true
					rep.Grounds = append(rep.Grounds, typeTableGrounds(t.ms.Pkg)...)
				}
			}
			rep.Grounds = append(rep.Grounds, Ground{Name: "compile/fresh-module", OK: true, Text: "generated sources of the corpus and of the regenerated checked-in schemas type-check (go/packages, go/types)"})
		}
		// names colliding with protoreflect.Message methods: fields are renamed by rewriteMessageField, oneofs must be too
		for _, nm := range []string{"type", "range", "descriptor"} {
			fdp := newFile("corpus/names/oneof_"+nm+".proto", "corpus.names."+nm, freshModule+"/corpus/names_"+nm)
			w := newMsg("W", "corpus.names."+nm+".W")
			oi := w.oneofDecl(nm)
			w.member(oi, "a", 1, descriptorpb.FieldDescriptorProto_TYPE_INT32, "")
			w.member(oi, "b", 2, descriptorpb.FieldDescriptorProto_TYPE_STRING, "")
			fdp.MessageType = append(fdp.MessageType, w.m)
			res, err := generateFresh(map[string]*descriptorpb.FileDescriptorProto{fdp.GetName(): fdp}, []string{fdp.GetName()}, nil, "names-"+nm)
			ok := err == nil && res != nil && res.errText == ""
			detail := ""
			if err != nil {
				detail = err.Error()
			} else if res != nil {
				detail = res.errText
			}
			if len(detail) > 300 {
				detail = detail[:300]
			}
			rep.Grounds = append(rep.Grounds, Ground{Name: "compile/oneof-named-like-a-reflection-method[" + nm + "]", OK: ok, Text: "a oneof whose Go name collides with a protoreflect.Message method (" + nm + ") still yields sources that compile", Detail: detail})
		}
		p, err := loadHand()
		if err != nil {
			return err
		}
		unitsForProperty(p, rep, "C12")
		rep.Bounded = append(rep.Bounded, "schema quantifier: 'answers with sources' and 'sources compile' are observed on the corpus (Appendix G: kinds x shapes x tag widths, oneofs, maps, nesting, imports, WKTs, reserved names) and on the checked-in schemas, not proved for all schemas")
		rep.Trusted = append(rep.Trusted, globalTrusted...)
		return nil
	}
}
