package main

// Emitted-code family: the generated protoreflect.Message methods (DESIGN.md Appendix F), mode int.
// For every field f of the schema and every operation, under the assumption fd.FullName() == "<full name of f>",
// the method is executed symbolically on an arbitrary message state and compared with the abstract transition of
// the protoreflect interface on view(x) (the struct fields themselves, so getters and fields agree by construction).

import (
	"fmt"
	"go/ast"
	"go/types"
	"regexp"
	"strings"

	"golang.org/x/tools/go/packages"
	"google.golang.org/protobuf/types/descriptorpb"
)

// RVal models protoreflect.Value
type RVal struct {
	Kind string // Bool Int32 Int64 Uint32 Uint64 Float32 Float64 String Bytes Enum Message List Map | "?" (symbolic parameter)
	V    Val
	Id   string
}

func goCamel(s string) string {
	// protoc-gen-go's GoCamelCase, enough for message names
	var sb strings.Builder
	up := true
	for i := 0; i < len(s); i++ {
		ch := s[i]
		switch {
		case ch == '_':
			if i+1 < len(s) && s[i+1] >= 'a' && s[i+1] <= 'z' {
				up = true
			} else {
				sb.WriteByte('_')
			}
		case up && ch >= 'a' && ch <= 'z':
			sb.WriteByte(ch - 32)
			up = false
		default:
			sb.WriteByte(ch)
			up = false
		}
	}
	return sb.String()
}

// fullNames maps Go message type names of a generated package to protobuf full names (from the embedded descriptors)
func fullNames(pk *packages.Package) map[string]string {
	out := map[string]string{}
	fds, err := rawDescriptors([]*packages.Package{pk})
	if err != nil {
		return out
	}
	var walk func(prefix, goPrefix string, ms []*descriptorpb.DescriptorProto)
	walk = func(prefix, goPrefix string, ms []*descriptorpb.DescriptorProto) {
		for _, m := range ms {
			full := prefix + m.GetName()
			gn := goPrefix + goCamel(m.GetName())
			out[gn] = full
			walk(full+".", gn+"_", m.NestedType)
		}
	}
	for _, fd := range fds {
		p := ""
		if fd.GetPackage() != "" {
			p = fd.GetPackage() + "."
		}
		walk(p, "", fd.MessageType)
	}
	return out
}

type reflEngine struct {
	c      *Ctx
	ms     *MsgSchema
	x      PtrV
	full   string
	fdName string // symbolic interned name of fd.FullName()
	rvN    int
	pure   map[string]Val
	calls  []rangeCall
	unit   *Unit
	views  map[string]PtrV   // repr of a ProtoReflect() result -> the message pointer it is the view of
	ifaces map[string]IfaceV // repr of a protoreflect.Message value -> its Interface() result
}

type rangeCall struct {
	guard string
	fdVar string
	key   Val
	val   Val
	ret   string
	pos   string
}

func (e *reflEngine) pureVal(st *State, key string, t types.Type) Val {
	if v, ok := e.pure[key]; ok {
		return v
	}
	v := e.c.symbolic(st, "pure", t)
	e.pure[key] = v
	return v
}

func valRepr(v Val) string {
	switch x := v.(type) {
	case Scalar:
		return x.T
	case PtrV:
		return x.Ref + "@" + x.Cell
	case IfaceV:
		return x.Tag + ":" + x.Ref
	case SliceV:
		return x.Arr + "/" + x.Region + "/" + x.Off + "/" + x.Len
	case RVal:
		return "rv:" + x.Id
	case ErrV:
		return x.T
	}
	return fmt.Sprintf("%T", v)
}

var valueOfKinds = map[string]string{"ValueOfBool": "Bool", "ValueOfInt32": "Int32", "ValueOfInt64": "Int64", "ValueOfUint32": "Uint32", "ValueOfUint64": "Uint64",
	"ValueOfFloat32": "Float32", "ValueOfFloat64": "Float64", "ValueOfString": "String", "ValueOfBytes": "Bytes", "ValueOfEnum": "Enum", "ValueOfMessage": "Message", "ValueOfList": "List", "ValueOfMap": "Map"}

const protoreflectPkg = "google.golang.org/protobuf/reflect/protoreflect"

func (e *reflEngine) hook(c *Ctx, call *ast.CallExpr, st *State) ([]Val, bool) {
	fn := c.calleeFunc(call)
	key := funcKey(fn)
	sel, isSel := call.Fun.(*ast.SelectorExpr)
	if fn != nil && fn.Pkg() != nil && fn.Pkg().Path() == protoreflectPkg {
		if k, ok := valueOfKinds[fn.Name()]; ok && len(call.Args) == 1 {
			e.rvN++
			return []Val{RVal{Kind: k, V: c.eval(call.Args[0], st), Id: fmt.Sprintf("c%d", e.rvN)}}, true
		}
		if isSel {
			recv := c.eval(sel.X, st)
			switch r := recv.(type) {
			case RVal:
				return []Val{e.valueAccessor(st, r, fn.Name(), c.info.TypeOf(call))}, true
			}
			switch fn.Name() {
			case "FullName":
				if id, ok := sel.X.(*ast.Ident); ok && (id.Name == "fd" || id.Name == "descriptor" || id.Name == "d") {
					return []Val{Scalar{e.fdName, strSort}}, true
				}
			case "IsExtension":
				return []Val{Scalar{c.freshRaw("isext", "Bool"), boolSort}}, true
			}
			// other descriptor getters: pure functions of receiver and arguments
			k := key + "(" + valRepr(recv)
			for _, a := range call.Args {
				av := c.eval(a, st)
				if id, ok := c.strID(av); ok {
					k += fmt.Sprintf(",str%d", id)
				} else {
					k += "," + valRepr(av)
				}
			}
			res := e.pureVal(st, k+")", c.info.TypeOf(call))
			if iv, ok := res.(IfaceV); ok && fn.Name() == "Interface" && len(call.Args) == 0 {
				if e.ifaces == nil {
					e.ifaces = map[string]IfaceV{}
				}
				e.ifaces[valRepr(recv)] = iv
			}
			return []Val{res}, true
		}
	}
	if isSel && fn != nil && fn.Name() == "Number" && len(call.Args) == 0 && c.prog.inRepo(fn) {
		// generated enum method `func (x E) Number() protoreflect.EnumNumber { return protoreflect.EnumNumber(x) }`: its body is executed
		if fd := c.prog.funcDecl(fn); fd != nil && fd.Body != nil {
			if _, isScalar := c.eval(sel.X, st).(Scalar); isScalar {
				return c.inlineDecl(fd, fn, call, st), true
			}
		}
	}
	if isSel && fn != nil {
		// methods of generated types that are pure views: ProtoReflect, Descriptor, Type, Interface
		switch fn.Name() {
		case "ProtoReflect", "Descriptor", "Type", "Interface":
			if c.prog.inRepo(fn) || strings.HasPrefix(fn.Pkg().Path(), "google.golang.org/protobuf") {
				recv := c.eval(sel.X, st)
				res := e.pureVal(st, key+"("+valRepr(recv)+")", c.info.TypeOf(call))
				if p, ok := recv.(PtrV); ok && fn.Name() == "ProtoReflect" {
					if e.views == nil {
						e.views = map[string]PtrV{}
					}
					e.views[valRepr(res)] = p
				}
				if iv, ok := res.(IfaceV); ok && fn.Name() == "Interface" {
					if e.ifaces == nil {
						e.ifaces = map[string]IfaceV{}
					}
					e.ifaces[valRepr(recv)] = iv
				}
				return []Val{res}, true
			}
		}
	}
	// Range callback
	if id, ok := call.Fun.(*ast.Ident); ok && id.Name == "f" && len(call.Args) == 2 {
		if _, isParam := c.objOf(id).(*types.Var); isParam {
			fdv := types.ExprString(call.Args[0])
			kv := c.eval(call.Args[0], st)
			v := c.eval(call.Args[1], st)
			r := c.freshRaw("cb", "Bool")
			e.calls = append(e.calls, rangeCall{guard: st.guard, fdVar: fdv, key: kv, val: v, ret: r, pos: c.pos(call.Pos())})
			return []Val{Scalar{r, boolSort}}, true
		}
	}
	return nil, false
}

// assertHook: value.Interface().(string) on a protoreflect.Value is value.String() when the assertion succeeds
func (e *reflEngine) assertHook(v Val, target types.Type, st *State) (Val, string, bool) {
	rv, ok := v.(RVal)
	if !ok || rv.Kind != "?iface" || !isString(target) {
		return nil, "", false
	}
	return e.valueAccessor(st, RVal{Kind: "?", Id: rv.Id}, "String", target), e.c.freshRaw("tyok", "Bool"), true
}

func (e *reflEngine) valueAccessor(st *State, r RVal, name string, t types.Type) Val {
	c := e.c
	if r.Kind != "?" {
		// accessor on a constructed value
		switch name {
		case "IsValid":
			return Scalar{"true", boolSort}
		case "Interface":
			return r.V
		}
		if s, ok := r.V.(Scalar); ok {
			if ts, ok := c.sortOf(t); ok && ts.K != "bool" {
				return c.convertSort(s, ts)
			}
		}
		return r.V
	}
	key := "rv:" + r.Id + "." + name
	if v, ok := e.pure[key]; ok {
		return v
	}
	var v Val
	switch name {
	case "Interface":
		v = RVal{Kind: "?iface", Id: r.Id}
	case "IsValid":
		v = Scalar{c.freshRaw("valid", "Bool"), boolSort}
	case "Message", "List", "Map":
		tag, ref := c.freshRaw("v"+name+"_tag", "Int"), c.freshRaw("v"+name+"_ref", "Int")
		c.assume("(>= " + tag + " 0)")
		v = IfaceV{Tag: tag, Ref: ref, T: t}
	default:
		v = c.symbolic(st, "v"+name, t)
	}
	e.pure[key] = v
	return v
}

// view helpers

func (e *reflEngine) unsetTerm(v Val) string {
	c := e.c
	switch p := v.(type) {
	case Scalar:
		return "(= " + p.T + " " + c.zero(p.S) + ")"
	case SliceV:
		if p.IsStr {
			return "(= " + p.Len + " 0)"
		}
		return and("(= "+p.Len+" 0)", p.Nil)
	case ListV:
		return and("(= "+p.Len+" 0)", p.Nil)
	case MapV:
		return and("(= "+p.Len+" 0)", p.Nil)
	case PtrV:
		return "(= " + p.Ref + " 0)"
	case IfaceV:
		return "(= " + p.Tag + " 0)"
	}
	return "true"
}

func sameTerm(a, b Val) string {
	switch p := a.(type) {
	case Scalar:
		if q, ok := b.(Scalar); ok {
			return "(= " + p.T + " " + q.T + ")"
		}
	case SliceV:
		if q, ok := b.(SliceV); ok {
			r := and("(= "+p.Len+" "+q.Len+")", "(= "+p.Nil+" "+q.Nil+")")
			if p.Arr != "" && q.Arr != "" {
				r = and(r, "(= "+p.Arr+" "+q.Arr+")")
			}
			return r
		}
	case ListV:
		if q, ok := b.(ListV); ok {
			return and(and("(= "+p.Len+" "+q.Len+")", "(= "+p.Nil+" "+q.Nil+")"), "(= "+p.Elems+" "+q.Elems+")")
		}
	case MapV:
		if q, ok := b.(MapV); ok {
			return and(and("(= "+p.Len+" "+q.Len+")", "(= "+p.Nil+" "+q.Nil+")"), "(= "+p.Id+" "+q.Id+")")
		}
	case PtrV:
		if q, ok := b.(PtrV); ok {
			return "(= " + p.Ref + " " + q.Ref + ")"
		}
	case IfaceV:
		if q, ok := b.(IfaceV); ok {
			return and("(= "+p.Tag+" "+q.Tag+")", "(= "+p.Ref+" "+q.Ref+")")
		}
	}
	return "true"
}

func nz2(s string) string {
	if s == "" {
		return "0"
	}
	return s
}

type reflField struct {
	f      *FieldSchema
	goName string // struct field holding it (the oneof interface field for members)
	full   string
}

func (e *reflEngine) fields() []reflField {
	var out []reflField
	for _, f := range e.ms.Fields {
		g := f.GoName
		if f.Oneof != nil {
			g = f.Oneof.GoName
		}
		out = append(out, reflField{f, g, e.full + "." + f.ProtoName})
	}
	return out
}

func (e *reflEngine) structFields() []string {
	var out []string
	seen := map[string]bool{}
	for _, f := range e.fields() {
		if !seen[f.goName] {
			seen[f.goName] = true
			out = append(out, f.goName)
		}
	}
	return append(out, "unknownFields")
}

func (e *reflEngine) snapshot(st *State) map[string]Val {
	m := map[string]Val{}
	for _, g := range e.structFields() {
		m[g] = e.c.loadField(st, e.x, g)
	}
	// the heap components of the oneof wrappers must exist before the entry state is cloned
	for _, oo := range e.ms.Oneofs {
		iv := m[oo.GoName].(IfaceV)
		for _, mem := range oo.Members {
			e.c.loadField(st, PtrV{Ref: iv.Ref, Named: mem.Wrapper}, mem.GoName)
		}
	}
	return m
}

func (e *reflEngine) presentTerm(st *State, f reflField, snap map[string]Val) string {
	c := e.c
	if f.f.Oneof != nil {
		iv := snap[f.goName].(IfaceV)
		return fmt.Sprintf("(= %s %d)", iv.Tag, c.typeTag(f.f.Wrapper))
	}
	switch v := snap[f.goName].(type) {
	case Scalar:
		if v.S.K == "bool" {
			return v.T
		}
		return "(not (= " + v.T + " " + c.zero(v.S) + "))"
	case SliceV:
		return "(not (= " + v.Len + " 0))"
	case ListV:
		return "(not (= " + v.Len + " 0))"
	case MapV:
		return "(not (= " + v.Len + " 0))"
	case PtrV:
		return "(not (= " + v.Ref + " 0))"
	}
	return "true"
}

var freshRef = regexp.MustCompile(`^\(- [0-9]+\)$`)

type reflOpts struct {
	contract bool            // C08: per-operation contracts
	nilrecv  bool            // C09: nil receiver variants of the read operations
	frame    bool            // C07/C11: read-only operations do not store
	unknown  bool            // C14: GetUnknown/SetUnknown
	get      bool            // C09: the Get contract (unpopulated composite fields yield the invalid read-only views)
	only     map[string]bool // restrict the contract run to these methods (nil: all)
}

var readOnlyMethods = map[string]bool{"Has": true, "Get": true, "Range": true, "WhichOneof": true, "GetUnknown": true, "IsValid": true, "NewField": true, "Descriptor": true, "Type": true, "New": true, "Interface": true}

func reflUnits(prog *Program, ms *MsgSchema, o reflOpts) []*Unit {
	var out []*Unit
	names := fullNames(ms.Pkg)
	methods := []string{"Has", "Get", "Set", "Clear", "Mutable", "NewField", "WhichOneof", "Range", "GetUnknown", "SetUnknown", "IsValid"}
	if o.frame && !o.contract && !o.nilrecv && !o.unknown && !o.get {
		// frame-only run: the remaining read-only methods of the message view are executed for their stores as well
		methods = append(methods, "Interface", "Descriptor", "Type", "New")
	}
	for _, m := range methods {
		if o.only != nil && !o.only[m] {
			continue
		}
		if o.unknown && !o.contract && m != "GetUnknown" && m != "SetUnknown" {
			continue
		}
		if o.frame && !o.contract && !o.nilrecv && !readOnlyMethods[m] {
			continue
		}
		if o.contract || o.frame || o.unknown || (o.get && m == "Get") {
			out = append(out, reflUnit(prog, ms, m, names[ms.Name], o, false))
		}
		if o.nilrecv && (readOnlyMethods[m] || m == "Set" || m == "Clear" || m == "Mutable" || m == "SetUnknown") {
			out = append(out, reflUnit(prog, ms, m, names[ms.Name], o, true))
		}
	}
	return out
}

func reflUnit(prog *Program, ms *MsgSchema, method, full string, o reflOpts, nilRecv bool) (u *Unit) {
	pkg := ms.Pkg
	u = &Unit{Name: shortPkg(pkg.PkgPath) + "." + ms.Name + "." + method}
	if nilRecv {
		u.Name += "/nilrecv"
	}
	fd := findMethod(pkg, "fastReflection_"+ms.Name, method)
	if fd == nil {
		u.Skipped = "method not found"
		return u
	}
	if full == "" {
		u.Skipped = "full name of the message not found in the embedded descriptor"
		return u
	}
	c := newCtx(prog, pkg, "int", u.Name)
	schemaByUnit[u.Name] = ms
	c.tag = map[string]string{"message": ms.Name, "method": method, "package": pkg.PkgPath}
	u.Ctx = c
	u.File = c.pos(fd.Pos())
	defer func() {
		if r := recover(); r != nil {
			if us, ok := r.(unsupported); ok {
				u.Skipped = "outside the supported subset: " + us.msg
				return
			}
			panic(r)
		}
	}()
	e := &reflEngine{c: c, ms: ms, full: full, pure: map[string]Val{}, unit: u}
	st := newState()
	frType, _ := pkg.Types.Scope().Lookup("fastReflection_" + ms.Name).Type().(*types.Named)
	xref := c.freshRaw("x", "Int")
	if nilRecv {
		c.assume("(= " + xref + " 0)")
	} else {
		c.assume("(> " + xref + " 0)")
	}
	e.x = PtrV{Ref: xref, Named: frType}
	st.env[c.info.Defs[fd.Recv.List[0].Names[0]]] = e.x
	e.fdName = c.freshRaw("fdname", "Int")
	c.assume("(> " + e.fdName + " 0)")
	// parameters
	for _, fl := range fd.Type.Params.List {
		for _, nm := range fl.Names {
			obj := c.info.Defs[nm]
			if obj == nil {
				continue
			}
			if nt, ok := obj.Type().(*types.Named); ok && nt.Obj().Name() == "Value" && nt.Obj().Pkg().Path() == protoreflectPkg {
				st.env[obj] = RVal{Kind: "?", Id: "param"}
				continue
			}
			st.env[obj] = c.symbolic(st, nm.Name, obj.Type())
		}
	}
	if fd.Type.Results != nil {
		for _, fl := range fd.Type.Results.List {
			n := len(fl.Names)
			if n == 0 {
				n = 1
			}
			for i := 0; i < n; i++ {
				c.resTypes = append(c.resTypes, c.info.TypeOf(fl.Type))
			}
		}
	}
	c.callHook = e.hook
	c.assertHook = e.assertHook
	c.assumeAsserts = method == "Set" // Set may panic on a value of the wrong Go type (caller error)
	c.noSafeNil = method == "Set"     // … and on a nil / read-only empty list or map view
	c.nilPanics = nilRecv && !readOnlyMethods[method]
	var before map[string]Val
	if !nilRecv && method == "Set" {
		// the heap locations of the list/map wrappers a caller may pass in exist before the entry state is copied
		for _, w := range wrapperTypes(ms) {
			wp := PtrV{Ref: c.freshRaw("anywrapper", "Int"), Named: w.named}
			if cp, ok := c.loadField(st, wp, w.cellF).(PtrV); ok {
				c.loadCell(st, cp)
			}
		}
	}
	if !nilRecv {
		before = e.snapshot(st)
		// domain: a oneof holds nil or a non-nil wrapper (typed-nil wrappers are the separate finding D8)
		for _, oo := range ms.Oneofs {
			iv := before[oo.GoName].(IfaceV)
			st.guard = c.defRaw("g", "Bool", and(st.guard, implies(not("(= "+iv.Tag+" 0)"), not("(= "+iv.Ref+" 0)"))))
			// the dynamic type of a oneof field is one of its wrappers
			alts := "(= " + iv.Tag + " 0)"
			for _, m := range oo.Members {
				alts = or(alts, fmt.Sprintf("(= %s %d)", iv.Tag, c.typeTag(m.Wrapper)))
			}
			st.guard = c.defRaw("g", "Bool", and(st.guard, alts)) // part of the path condition: every obligation sees it
		}
	}
	entry := st.clone()
	c.entry = entry
	c.addObl(Obl{Name: u.Name + "/cover[entry]", Kind: "cover", Guard: "true", Goal: "true", Expect: "sat", Text: "entry assumptions are satisfiable"})
	fl := c.execBlock(fd.Body.List, st)
	for _, end := range fl.nexts() {
		c.rets = append(c.rets, &RetState{St: end, Pos: fd.Body.Rbrace})
	}
	if nilRecv {
		e.nilContract(u, method)
		return u
	}
	if o.frame && readOnlyMethods[method] {
		n := 0
		for _, s := range c.stores {
			// a store to a field of the message — or of anything reachable from it (oneof wrappers, sub-messages): every
			// struct store whose target is not an object allocated by this call
			if strings.HasPrefix(s.Key, "fld:") && !freshRef.MatchString(s.Ref) {
				n++
				c.addObl(Obl{Name: fmt.Sprintf("%s/frame[message not written]#%d", u.Name, n), Kind: "frame", Guard: s.Guard, Goal: "false", Pos: s.Pos, Text: method + " performs no store to a field of the message (" + s.Key + ")"})
			}
		}
		u.Grounds = append(u.Grounds, Ground{Name: u.Name + "/frame[stores to message fields]", OK: n == 0, Text: fmt.Sprintf("%s contains no statement that stores to a field of the message (%d found)", method, n)})
	}
	if !o.contract && !(o.get && method == "Get") && !(o.unknown && (method == "GetUnknown" || method == "SetUnknown")) {
		// frame-only run: drop the safety sweep (it belongs to C08)
		var keep []*Obl
		for _, ob := range c.obls {
			if !(strings.HasPrefix(ob.Kind, "safe.") || ob.Kind == "requires@call") {
				keep = append(keep, ob)
			}
		}
		c.obls = keep
		return u
	}
	e.contract(u, method, before)
	return u
}

// mergedReturn: all normal returns merged (value + state)
func (e *reflEngine) mergedReturn() (*State, Val) {
	c := e.c
	var st *State
	var val Val
	for _, r := range c.rets {
		var v Val
		if len(r.Vals) > 0 {
			v = r.Vals[0]
		}
		if st == nil {
			st, val = r.St, v
			continue
		}
		if v != nil && val != nil {
			val = c.mergeVal(st.guard, val, v)
		}
		st = c.merge(st, r.St)
	}
	return st, val
}

func (e *reflEngine) under(name string) string {
	return fmt.Sprintf("(= %s %d)", e.fdName, intern(name))
}

func (e *reflEngine) contract(u *Unit, method string, before map[string]Val) {
	c := e.c
	fields := e.fields()
	known := "false"
	for _, f := range fields {
		known = or(known, e.under(f.full))
	}
	// unknown descriptors must panic (never reach a return); known ones must not hit the default panics
	switch method {
	case "Has", "Get", "Set", "Clear", "Mutable", "NewField":
		for i, r := range c.rets {
			c.addObl(Obl{Name: fmt.Sprintf("%s/unknown-descriptor-panics@ret%d", u.Name, i+1), Kind: "ensures", Guard: r.St.guard, Goal: known, Pos: c.pos(r.Pos), Text: "a field descriptor that is not a field of the message never reaches a normal return"})
		}
	}
	// which case of the method's descriptor switch a return point belongs to (by source position)
	caseNames := map[*RetState]map[string]bool{}
	if fd := findMethod(e.ms.Pkg, "fastReflection_"+e.ms.Name, method); fd != nil {
		for _, s := range fd.Body.List {
			sw, ok := s.(*ast.SwitchStmt)
			if !ok {
				continue
			}
			for _, cl := range sw.Body.List {
				cc := cl.(*ast.CaseClause)
				names := map[string]bool{}
				for _, ex := range cc.List {
					if v, ok := c.constVal(ex); ok {
						if id, ok := c.strID(v); ok {
							names[internRev[id]] = true
						}
					}
				}
				for _, r := range c.rets {
					if r.Pos >= cc.Pos() && r.Pos <= cc.End() {
						caseNames[r] = names
					}
				}
			}
		}
	}
	perRet := func(f reflField, clause string, goal func(r *RetState) string, text string) {
		for i, r := range c.rets {
			if cn, ok := caseNames[r]; ok && !cn[f.full] {
				continue // this return point lies in the case of another descriptor
			}
			g := c.defRaw("g", "Bool", and(r.St.guard, e.under(f.full)))
			c.addObl(Obl{Name: fmt.Sprintf("%s/%s/ensures[%s]@ret%d", u.Name, f.full, clause, i+1), Kind: "ensures", Guard: g, Goal: goal(r), Pos: c.pos(r.Pos), Text: text})
		}
	}
	frame := func(f reflField, r *RetState) string {
		var fr []string
		for _, g := range e.structFields() {
			if g != f.goName {
				fr = append(fr, sameTerm(before[g], c.loadField(r.St, e.x, g)))
			}
		}
		return andAll(fr)
	}
	mutators := map[string]bool{"Set": true, "Clear": true, "Mutable": true}
	// panics in known branches: only where the interface says so (Mutable on non-composite fields)
	for i, pr := range c.panics {
		allowed := not(known)
		if method == "Mutable" {
			for _, f := range fields {
				composite := f.f.IsMap || f.f.Rep || f.f.Kind == "message"
				if !composite {
					allowed = or(allowed, e.under(f.full))
				}
			}
		}
		if method == "WhichOneof" || method == "Range" || method == "GetUnknown" || method == "SetUnknown" || method == "IsValid" {
			continue
		}
		c.addObl(Obl{Name: fmt.Sprintf("%s/panic-only-where-specified#%d", u.Name, i+1), Kind: "unreachable-panic", Guard: pr.St.guard, Goal: allowed, Pos: c.pos(pr.Pos), Text: "panic(" + pr.Msg + ") only for descriptors outside the message (or Mutable on a non-composite field)"})
	}
	for _, f := range fields {
		f := f
		switch method {
		case "Has":
			perRet(f, "== Present", func(r *RetState) string {
				res := r.Vals[0].(Scalar)
				return "(= " + res.T + " " + e.presentTerm(c.entry, f, before) + ")"
			}, "Has(fd) == field is populated (numeric != 0, float bits != 0, len != 0, message != nil, oneof member selected)")
		case "Clear":
			if f.f.Oneof != nil {
				perRet(f, "clears the selected member", func(r *RetState) string {
					b, a := before[f.goName].(IfaceV), c.loadField(r.St, e.x, f.goName).(IfaceV)
					return implies(fmt.Sprintf("(= %s %d)", b.Tag, c.typeTag(f.f.Wrapper)), "(= "+a.Tag+" 0)")
				}, "Clear(fd) of the selected oneof member unsets the oneof")
				perRet(f, "keeps another selected member", func(r *RetState) string {
					b, a := before[f.goName].(IfaceV), c.loadField(r.St, e.x, f.goName).(IfaceV)
					return implies(not(fmt.Sprintf("(= %s %d)", b.Tag, c.typeTag(f.f.Wrapper))), sameTerm(b, a))
				}, "Clear(fd) of a oneof member that is not the selected one changes nothing")
			} else {
				perRet(f, "effect", func(r *RetState) string {
					return e.unsetTerm(c.loadField(r.St, e.x, f.goName))
				}, "Clear(fd) unsets the field (zero value; nil for bytes, lists, maps and messages)")
			}
		case "Set":
			perRet(f, "effect", func(r *RetState) string { return e.setEffect(f, r) }, "Set(fd, v) stores conv(v) into the field (a oneof member replaces its siblings)")
		case "Get":
			perRet(f, "value", func(r *RetState) string { return e.getValue(f, r, before, false) }, "Get(fd) returns the field's value (default / invalid empty view when unpopulated)")
		case "Mutable":
			composite := f.f.IsMap || f.f.Rep || f.f.Kind == "message"
			if composite && f.f.Oneof != nil {
				perRet(f, "member selected", func(r *RetState) string {
					iv := c.loadField(r.St, e.x, f.goName).(IfaceV)
					return fmt.Sprintf("(and (= %s %d) (not (= %s 0)))", iv.Tag, c.typeTag(f.f.Wrapper), iv.Ref)
				}, "after Mutable(fd) of a oneof message member that member is the selected one")
				perRet(f, "oneof message is valid", func(r *RetState) string {
					iv := c.loadField(r.St, e.x, f.goName).(IfaceV)
					pr := c.loadField(r.St, PtrV{Ref: iv.Ref, Named: f.f.Wrapper}, f.f.GoName).(PtrV)
					return "(not (= " + pr.Ref + " 0))"
				}, "Mutable(fd) of a oneof message member returns a valid (non-nil) message")
			} else if composite {
				perRet(f, "value", func(r *RetState) string { return e.getValue(f, r, before, true) }, "Mutable(fd) returns a view that writes through to the field, creating it if unset")
			}
		case "NewField":
			perRet(f, "fresh", func(r *RetState) string { return e.newFieldValue(f, r) }, "NewField(fd) returns the default value / a fresh empty composite, not stored in the message")
		}
		if mutators[method] {
			composite := f.f.IsMap || f.f.Rep || f.f.Kind == "message"
			if method == "Mutable" && !composite {
				continue
			}
			perRet(f, "frame", func(r *RetState) string { return frame(f, r) }, "no other field of the message changes")
		}
	}
	if method == "NewField" || method == "Has" || method == "Get" {
		for i, r := range c.rets {
			var fr []string
			for _, g := range e.structFields() {
				fr = append(fr, sameTerm(before[g], c.loadField(r.St, e.x, g)))
			}
			c.addObl(Obl{Name: fmt.Sprintf("%s/frame[message unchanged]@ret%d", u.Name, i+1), Kind: "frame", Guard: r.St.guard, Goal: andAll(fr), Pos: c.pos(r.Pos), Text: method + " leaves every field of the message unchanged"})
		}
	}
	switch method {
	case "WhichOneof":
		e.whichOneof(u, before)
	case "Range":
		e.rangeContract(u, before)
	case "GetUnknown":
		for i, r := range c.rets {
			if res, ok := r.Vals[0].(SliceV); ok {
				c.addObl(Obl{Name: fmt.Sprintf("%s/ensures[returns the unknown set]@ret%d", u.Name, i+1), Kind: "ensures", Guard: r.St.guard, Goal: sameTerm(before["unknownFields"], res), Pos: c.pos(r.Pos), Text: "GetUnknown returns exactly unknownFields"})
			}
		}
	case "SetUnknown":
		for i, r := range c.rets {
			after := c.loadField(r.St, e.x, "unknownFields")
			var arg Val
			for o, v := range c.entry.env {
				if o.Name() == "fields" {
					arg = v
				}
			}
			var fr []string
			for _, g := range e.structFields() {
				if g != "unknownFields" {
					fr = append(fr, sameTerm(before[g], c.loadField(r.St, e.x, g)))
				}
			}
			if arg != nil {
				c.addObl(Obl{Name: fmt.Sprintf("%s/ensures[replaces the unknown set]@ret%d", u.Name, i+1), Kind: "ensures", Guard: r.St.guard, Goal: and(sameTerm(arg, after), andAll(fr)), Pos: c.pos(r.Pos), Text: "SetUnknown replaces exactly unknownFields and nothing else"})
			}
		}
	case "IsValid":
		for i, r := range c.rets {
			res := r.Vals[0].(Scalar)
			c.addObl(Obl{Name: fmt.Sprintf("%s/ensures[valid iff non-nil]@ret%d", u.Name, i+1), Kind: "ensures", Guard: r.St.guard, Goal: "(= " + res.T + " (not (= " + e.x.Ref + " 0)))", Pos: c.pos(r.Pos), Text: "IsValid() == (x != nil)"})
		}
	}
	if len(c.rets) > 0 {
		c.addObl(Obl{Name: u.Name + "/canary[return reachable]", Kind: "canary", Guard: c.rets[0].St.guard, Goal: "true", Expect: "sat", Text: "a return point is reachable"})
	}
}

// expected accessor of a Set value for a field kind
func (e *reflEngine) setEffect(f reflField, r *RetState) string {
	c := e.c
	rv := RVal{Kind: "?", Id: "param"}
	conv := func(acc string, t types.Type, to Sort) string {
		v := e.valueAccessor(r.St, rv, acc, t).(Scalar)
		return c.convertSort(v, to).T
	}
	holder := e.x
	goName := f.goName
	var cur Val
	if f.f.Oneof != nil {
		iv := c.loadField(r.St, e.x, f.goName).(IfaceV)
		w := PtrV{Ref: iv.Ref, Named: f.f.Wrapper}
		cur = c.loadField(r.St, w, f.f.GoName)
		sel := fmt.Sprintf("(and (= %s %d) (not (= %s 0)))", iv.Tag, c.typeTag(f.f.Wrapper), iv.Ref)
		return and(sel, e.setValueMatches(f, cur, conv, r))
	}
	cur = c.loadField(r.St, holder, goName)
	return e.setValueMatches(f, cur, conv, r)
}

func (e *reflEngine) setValueMatches(f reflField, cur Val, conv func(acc string, t types.Type, to Sort) string, r *RetState) string {
	c := e.c
	rv := RVal{Kind: "?", Id: "param"}
	i64, u64, f64 := types.Typ[types.Int64], types.Typ[types.Uint64], types.Typ[types.Float64]
	switch f.f.Kind {
	case "bool":
		if f.f.Rep || f.f.IsMap {
			break
		}
		v := e.valueAccessor(r.St, rv, "Bool", types.Typ[types.Bool]).(Scalar)
		return "(= " + cur.(Scalar).T + " " + v.T + ")"
	}
	if f.f.IsMap || f.f.Rep {
		// x.F = *v.(wrapper).cell : the field becomes the content of the location the passed view points at
		for _, w := range wrapperTypes(e.ms) {
			if w.f != f.f {
				continue
			}
			acc := "List"
			if w.isMap {
				acc = "Map"
			}
			lv, ok := e.valueAccessor(r.St, rv, acc, nil).(IfaceV)
			if !ok {
				return "false"
			}
			wp := PtrV{Ref: lv.Ref, Named: w.named}
			cp, ok := c.loadField(c.entry, wp, w.cellF).(PtrV)
			if !ok {
				return "false"
			}
			return sameTerm(cur, c.loadCell(c.entry, cp))
		}
		return "true"
	}
	switch f.f.Kind {
	case "int32", "sint32", "sfixed32":
		return "(= " + cur.(Scalar).T + " " + conv("Int", i64, cur.(Scalar).S) + ")"
	case "int64", "sint64", "sfixed64":
		return "(= " + cur.(Scalar).T + " " + conv("Int", i64, cur.(Scalar).S) + ")"
	case "uint32", "fixed32", "uint64", "fixed64":
		return "(= " + cur.(Scalar).T + " " + conv("Uint", u64, cur.(Scalar).S) + ")"
	case "enum":
		en := e.valueAccessor(r.St, rv, "Enum", types.Typ[types.Int32]).(Scalar)
		return "(= " + cur.(Scalar).T + " " + c.convertSort(en, cur.(Scalar).S).T + ")"
	case "double":
		v := e.valueAccessor(r.St, rv, "Float", f64).(Scalar)
		return "(= " + cur.(Scalar).T + " " + v.T + ")"
	case "float":
		return "true" // float64 -> float32 narrowing is not modelled
	case "string":
		v, ok := e.valueAccessor(r.St, rv, "String", types.Typ[types.String]).(SliceV)
		cs, ok2 := cur.(SliceV)
		if ok && ok2 {
			return and("(= "+cs.Len+" "+v.Len+")", or("(= "+v.Len+" 0)", "(= "+nz2(c.sliceArr(r.St, cs))+" "+nz2(c.sliceArr(r.St, v))+")"))
		}
		return "false"
	case "bytes":
		v, ok := e.valueAccessor(r.St, rv, "Bytes", types.NewSlice(types.Typ[types.Uint8])).(SliceV)
		cs, ok2 := cur.(SliceV)
		if ok && ok2 {
			return "(= " + cs.Len + " " + v.Len + ")"
		}
	case "message":
		// x.F = value.Message().Interface().(*T)
		mv, ok := e.valueAccessor(r.St, rv, "Message", nil).(IfaceV)
		cp, ok2 := cur.(PtrV)
		if !ok || !ok2 {
			return "false"
		}
		if iv, ok := e.ifaces[valRepr(mv)]; ok {
			return "(= " + cp.Ref + " " + iv.Ref + ")"
		}
		return "false"
	}
	return "true"
}

func (e *reflEngine) getValue(f reflField, r *RetState, before map[string]Val, mutable bool) string {
	c := e.c
	rv, ok := r.Vals[0].(RVal)
	if !ok {
		return "false"
	}
	var cur Val
	selected := "true"
	if f.f.Oneof != nil {
		iv := before[f.goName].(IfaceV)
		if mutable {
			iv = c.loadField(r.St, e.x, f.goName).(IfaceV)
		}
		w := PtrV{Ref: iv.Ref, Named: f.f.Wrapper}
		st := c.entry
		if mutable {
			st = r.St
		}
		cur = c.loadField(st, w, f.f.GoName)
		selected = fmt.Sprintf("(and (= %s %d) (not (= %s 0)))", iv.Tag, c.typeTag(f.f.Wrapper), iv.Ref)
		if mutable {
			// after Mutable the member is selected
			pr := cur.(PtrV)
			if m, ok := rv.V.(IfaceV); ok {
				_ = m
			}
			if src, ok := e.views[valRepr(rv.V)]; ok {
				return and(selected, and("(not (= "+pr.Ref+" 0))", "(= "+src.Ref+" "+pr.Ref+")"))
			}
			return "false"
		}
	} else if mutable {
		cur = c.loadField(r.St, e.x, f.goName)
	} else {
		cur = before[f.goName]
	}
	wantKind := map[string]string{"bool": "Bool", "int32": "Int32", "sint32": "Int32", "sfixed32": "Int32", "int64": "Int64", "sint64": "Int64", "sfixed64": "Int64",
		"uint32": "Uint32", "fixed32": "Uint32", "uint64": "Uint64", "fixed64": "Uint64", "float": "Float32", "double": "Float64", "string": "String", "bytes": "Bytes", "enum": "Enum", "message": "Message"}[f.f.Kind]
	if f.f.IsMap {
		wantKind = "Map"
	} else if f.f.Rep {
		wantKind = "List"
	}
	if rv.Kind != wantKind {
		return "false"
	}
	switch wantKind {
	case "List", "Map":
		// the view's pointer is &x.F when the field is non-empty (Get) / always (Mutable); nil for an empty field under Get
		w, ok := rv.V.(PtrV)
		if !ok || w.Struct() == nil || w.Struct().NumFields() == 0 {
			return "false"
		}
		pf := w.Struct().Field(0).Name()
		p, ok := c.loadField(r.St, w, pf).(PtrV)
		if !ok {
			return "false"
		}
		cid := c.heapGet(r.St, fieldBase(w, pf)+".cell", "Int", w.Ref)
		isField := and("(= "+p.Ref+" "+e.x.Ref+")", fmt.Sprintf("(= %s %d)", cid, intern("fld:"+e.x.TypeName()+"."+f.goName)))
		var ln, nl string
		switch v := cur.(type) {
		case ListV:
			ln, nl = v.Len, v.Nil
		case MapV:
			ln, nl = v.Len, v.Nil
		}
		if mutable {
			return and(isField, not(nl))
		}
		return fmt.Sprintf("(ite (= %s 0) (= %s 0) %s)", ln, p.Ref, isField)
	case "Message":
		// the returned view is the ProtoReflect() of the field's message: the typed-nil (invalid, read-only) view when the
		// field is unpopulated or another oneof member is selected
		pr := cur.(PtrV)
		src, ok := e.views[valRepr(rv.V)]
		if !ok {
			return "false"
		}
		same := "(= " + src.Ref + " " + pr.Ref + ")"
		if mutable {
			return and("(not (= "+pr.Ref+" 0))", same)
		}
		if f.f.Oneof != nil {
			return "(ite " + selected + " " + same + " (= " + src.Ref + " 0))"
		}
		return same
	}
	// scalar kinds: value equals the field, or the default when a oneof member is not selected
	got, ok1 := rv.V.(Scalar)
	cs, ok2 := cur.(Scalar)
	if ok1 && ok2 {
		eq := "(= " + c.convertSort(got, cs.S).T + " " + cs.T + ")"
		if f.f.Oneof != nil {
			return fmt.Sprintf("(ite %s %s (= %s %s))", selected, eq, got.T, c.zero(got.S))
		}
		return eq
	}
	gs, ok1 := rv.V.(SliceV)
	cv, ok2 := cur.(SliceV)
	if ok1 && ok2 {
		eq := and("(= "+gs.Len+" "+cv.Len+")", "(= "+nz2(c.sliceArr(r.St, gs))+" "+nz2(c.sliceArr(c.entry, cv))+")")
		if f.f.Oneof != nil {
			return fmt.Sprintf("(ite %s %s (= %s 0))", selected, eq, gs.Len)
		}
		return eq
	}
	return "true"
}

func protoMsgKey(p PtrV) string { return "ProtoReflect" }

func (e *reflEngine) newFieldValue(f reflField, r *RetState) string {
	rv, ok := r.Vals[0].(RVal)
	if !ok {
		return "false"
	}
	c := e.c
	switch v := rv.V.(type) {
	case Scalar:
		if f.f.Rep || f.f.IsMap {
			return "false"
		}
		return "(= " + v.T + " " + c.zero(v.S) + ")"
	case SliceV:
		return "(= " + v.Len + " 0)"
	}
	return "true"
}

func (e *reflEngine) whichOneof(u *Unit, before map[string]Val) {
	c := e.c
	for _, oo := range e.ms.Oneofs {
		full := e.full + "." + oo.Name
		for i, r := range c.rets {
			g := c.defRaw("g", "Bool", and(r.St.guard, e.under(full)))
			iv := before[oo.GoName].(IfaceV)
			var res string
			switch v := r.Vals[0].(type) {
			case IfaceV:
				res = v.Tag
			case ErrV:
				res = v.T
			default:
				continue
			}
			c.addObl(Obl{Name: fmt.Sprintf("%s/%s/ensures[nil when unset]@ret%d", u.Name, full, i+1), Kind: "ensures", Guard: g, Goal: implies("(= "+iv.Tag+" 0)", "(= "+res+" 0)"), Pos: c.pos(r.Pos), Text: "WhichOneof returns nil when no member is set (for a set member the looked-up descriptor is returned: next clause; that ByName finds an existing member is protobuf-go's)"})
			// member identity: the descriptor is looked up by the selected member's proto name
			for _, m := range oo.Members {
				exp := e.pure[e.byNameKey(m.ProtoName)]
				if exp == nil {
					u.Grounds = append(u.Grounds, Ground{Name: fmt.Sprintf("%s/%s/member-lookup[%s]", u.Name, full, m.ProtoName), OK: false, Text: "WhichOneof looks the selected member up by its proto name " + m.ProtoName})
					continue
				}
				ev, ok := exp.(IfaceV)
				rvv, ok2 := r.Vals[0].(IfaceV)
				if !ok || !ok2 {
					continue
				}
				sel := fmt.Sprintf("(= %s %d)", iv.Tag, c.typeTag(m.Wrapper))
				c.addObl(Obl{Name: fmt.Sprintf("%s/%s/ensures[selected member %s]@ret%d", u.Name, full, m.ProtoName, i+1), Kind: "ensures", Guard: g, Goal: implies(sel, and("(= "+rvv.Tag+" "+ev.Tag+")", "(= "+rvv.Ref+" "+ev.Ref+")")), Pos: c.pos(r.Pos), Text: "WhichOneof returns the descriptor of the selected member"})
			}
		}
	}
}

func (e *reflEngine) byNameKey(name string) string {
	for k := range e.pure {
		if strings.Contains(k, ".ByName(") && strings.HasSuffix(k, fmt.Sprintf(",str%d)", intern(name))) {
			return k
		}
	}
	return ""
}

// Range: f is called exactly for the populated fields, once each, with Get's value, and stops at the first false
func (e *reflEngine) rangeContract(u *Unit, before map[string]Val) {
	c := e.c
	byVar := map[string][]rangeCall{}
	for _, rc := range e.calls {
		byVar[rc.fdVar] = append(byVar[rc.fdVar], rc)
	}
	seenOneof := map[string]bool{}
	for _, f := range e.fields() {
		// descriptor variable of the field: fd_<Msg>_<protoName>
		v := "fd_" + e.ms.Name + "_" + f.f.ProtoName
		calls := byVar[v]
		u.Grounds = append(u.Grounds, Ground{Name: fmt.Sprintf("%s/%s/visited-at-one-call-site", u.Name, f.full), OK: len(calls) == 1, Text: "Range has exactly one call f(" + v + ", …)", Detail: fmt.Sprintf("%d call sites", len(calls))})
		if len(calls) != 1 {
			continue
		}
		rc := calls[0]
		// earlier callbacks all returned true
		prev := "true"
		for _, o := range e.calls {
			if o.ret == rc.ret {
				break
			}
			prev = and(prev, implies(o.guard, o.ret))
		}
		present := e.presentTerm(c.entry, f, before)
		c.addObl(Obl{Name: fmt.Sprintf("%s/%s/ensures[called only if populated and not stopped]", u.Name, f.full), Kind: "ensures", Guard: rc.guard, Goal: and(present, prev), Pos: rc.pos, Text: "f is called for a field only if it is populated and every earlier callback returned true"})
		c.addObl(Obl{Name: fmt.Sprintf("%s/%s/ensures[called if populated]", u.Name, f.full), Kind: "ensures", Guard: c.defRaw("g", "Bool", and(and(c.entry.guard, present), prev)), Goal: rc.guard, Pos: rc.pos, Text: "a populated field is visited when every earlier callback returned true"})
		_ = seenOneof
	}
}

// nil receiver (C09): reads behave as on an empty message, mutators panic
func (e *reflEngine) nilContract(u *Unit, method string) {
	c := e.c
	if readOnlyMethods[method] {
		// no nil dereference: the safety sweep's safe.nil obligations under x == nil are the contract
		for i, r := range c.rets {
			switch method {
			case "Has":
				if res, ok := r.Vals[0].(Scalar); ok {
					c.addObl(Obl{Name: fmt.Sprintf("%s/ensures[Has is false]@ret%d", u.Name, i+1), Kind: "ensures", Guard: r.St.guard, Goal: not(res.T), Pos: c.pos(r.Pos), Text: "Has on a nil message is false"})
				}
			case "WhichOneof":
				switch v := r.Vals[0].(type) {
				case IfaceV:
					c.addObl(Obl{Name: fmt.Sprintf("%s/ensures[WhichOneof is nil]@ret%d", u.Name, i+1), Kind: "ensures", Guard: r.St.guard, Goal: "(= " + v.Tag + " 0)", Pos: c.pos(r.Pos), Text: "WhichOneof on a nil message is nil"})
				}
			case "IsValid":
				if res, ok := r.Vals[0].(Scalar); ok {
					c.addObl(Obl{Name: fmt.Sprintf("%s/ensures[invalid]@ret%d", u.Name, i+1), Kind: "ensures", Guard: r.St.guard, Goal: not(res.T), Pos: c.pos(r.Pos), Text: "a nil message is not valid"})
				}
			}
		}
		if method == "Range" {
			for i, rc := range e.calls {
				c.addObl(Obl{Name: fmt.Sprintf("%s/ensures[visits nothing]#%d", u.Name, i+1), Kind: "ensures", Guard: rc.guard, Goal: "false", Pos: rc.pos, Text: "Range on a nil message calls f for no field"})
			}
		}
		return
	}
	// mutators: must not return normally for a known field (data must not be silently dropped)
	known := "false"
	for _, f := range e.fields() {
		known = or(known, e.under(f.full))
	}
	// a nil dereference is the expected panic here: drop the safe.nil obligations
	var keep []*Obl
	for _, ob := range c.obls {
		if ob.Kind != "safe.nil" {
			keep = append(keep, ob)
		}
	}
	c.obls = keep
	if method == "SetUnknown" {
		known = "true"
	}
	for i, r := range c.rets {
		c.addObl(Obl{Name: fmt.Sprintf("%s/ensures[mutator panics]@ret%d", u.Name, i+1), Kind: "ensures", Guard: r.St.guard, Goal: not(known), Pos: c.pos(r.Pos), Text: method + " on a nil message never returns normally (it panics instead of dropping data)"})
	}
}
