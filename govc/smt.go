package main

// SMT side of the verifier: sorts, background (passive form), obligations, slicing, solver portfolio.

import (
	"bytes"
	"context"
	"crypto/sha256"
	"fmt"
	"math/big"
	"os"
	"os/exec"
	"path/filepath"
	"regexp"
	"sort"
	"strconv"
	"strings"
	"sync"
	"time"
)

type Sort struct {
	K  string // "bool" | "bv" | "int" | "str" | "i2b"
	W  int    // Go width for bv and for wrap-around in int
	Sg bool   // signed
}

var boolSort = Sort{K: "bool"}
var strSort = Sort{K: "str"}

func (s Sort) smt() string {
	switch s.K {
	case "bool":
		return "Bool"
	case "bv":
		return fmt.Sprintf("(_ BitVec %d)", s.W)
	}
	return "Int"
}

type bgLine struct {
	text string
	def  string // symbol defined/declared by this line ("" for assumptions)
	kind byte   // 'd' declare, 'e' defining equation, 'a' assumption, 'g' global (always kept)
	syms []string
}

// Obl is one proof obligation: under the background visible at creation and Guard, Goal must hold.
type Obl struct {
	// CutGuard: a path-condition constant that the proof is first attempted without (context-free attempt: the
	// obligation is then the same formula for every occurrence of the same code shape and shares one answer);
	// when that attempt does not succeed the obligation is decided with its full context
	CutGuard   string
	CutSyms    []string // further constants (values of the loop's variables at entry) left unconstrained in that attempt
	useCut     bool
	OpaqueSpec bool // VarintEnd/VarintVal are left uninterpreted in this query
	Name       string
	Kind       string
	Guard      string
	Goal       string
	NDecl      int
	Pos        string
	Expect     string // "unsat" (default) or "sat" for cover / canary probes
	Text       string // human-readable form of the goal (contract clause or Go expression)
	ctx        *Ctx
	Tag        map[string]string // free-form: field, message, method ... (used by known-finding matching and replay)
}

type Result struct {
	Shared  string // proof shared with this alpha-equivalent obligation
	Obl     *Obl
	Res     string // unsat | sat | unknown | timeout | error
	Backend string
	Dur     time.Duration
	Model   string
	Raw     string
	File    string
}

func and(a, b string) string {
	if a == "true" {
		return b
	}
	if b == "true" {
		return a
	}
	if a == "false" || b == "false" {
		return "false"
	}
	return "(and " + a + " " + b + ")"
}
func or(a, b string) string {
	if a == "false" {
		return b
	}
	if b == "false" {
		return a
	}
	if a == "true" || b == "true" {
		return "true"
	}
	return "(or " + a + " " + b + ")"
}
func not(a string) string {
	if a == "true" {
		return "false"
	}
	if a == "false" {
		return "true"
	}
	return "(not " + a + ")"
}
func implies(a, b string) string {
	if a == "true" {
		return b
	}
	if a == "false" || b == "true" {
		return "true"
	}
	return "(=> " + a + " " + b + ")"
}
func andAll(xs []string) string {
	r := "true"
	for _, x := range xs {
		r = and(r, x)
	}
	return r
}

func isAtom(t string) bool { return !strings.ContainsAny(t, " (") || strings.HasPrefix(t, "(_ bv") }

var sanitizer = strings.NewReplacer(".", "_", "*", "p", " ", "_", "[", "_", "]", "_", "(", "_", ")", "_", "/", "_", ":", "_", ",", "_", "-", "_", "#", "_", "@", "_", "\"", "_", "=", "_", "<", "_", ">", "_", "+", "_", "{", "_", "}", "_", "&", "_", "|", "_", "'", "_")

func sanitize(s string) string { return sanitizer.Replace(s) }

func bvLit(v *big.Int, w int) string {
	m := new(big.Int).Lsh(big.NewInt(1), uint(w))
	u := new(big.Int).Mod(v, m)
	return fmt.Sprintf("(_ bv%s %d)", u.String(), w)
}
func intLit(v *big.Int) string {
	if v.Sign() < 0 {
		return "(- " + new(big.Int).Neg(v).String() + ")"
	}
	return v.String()
}

// ---------- background ----------

func (c *Ctx) addLine(l bgLine) { c.bg = append(c.bg, l) }

func (c *Ctx) fresh(prefix string, s Sort) string { return c.freshRaw(prefix, s.smt()) }

func (c *Ctx) freshRaw(prefix, sort string) string {
	c.n++
	name := fmt.Sprintf("%s!%d", sanitize(prefix), c.n)
	c.addLine(bgLine{text: fmt.Sprintf("(declare-const %s %s)", name, sort), def: name, kind: 'd'})
	return name
}
func (c *Ctx) def(prefix string, s Sort, term string) string { return c.defRaw(prefix, s.smt(), term) }

func (c *Ctx) defRaw(prefix, sort, term string) string {
	if isAtom(term) || c.noDef {
		return term
	}
	name := c.freshRaw(prefix, sort)
	c.addLine(bgLine{text: fmt.Sprintf("(assert (= %s %s))", name, term), def: name, kind: 'e'})
	return name
}
func (c *Ctx) assume(t string) {
	if t == "true" || c.noDef {
		return
	}
	c.addLine(bgLine{text: "(assert " + t + ")", kind: 'a'})
}

// global lines (function declarations, quantified axioms): always part of every query
func (c *Ctx) global(t string) {
	if len(symsOf(t)) > 0 {
		// mentions program symbols: an ordinary (sliceable) assumption
		c.addLine(bgLine{text: t, kind: 'a'})
		return
	}
	c.addLine(bgLine{text: t, kind: 'g'})
}

func (c *Ctx) declareFun(name, sig string) {
	if c.declared == nil {
		c.declared = map[string]bool{}
	}
	if c.declared[name] {
		return
	}
	c.declared[name] = true
	c.global("(declare-fun " + name + " " + sig + ")")
}

var guardedRe = regexp.MustCompile(`^\(assert \(=> ([A-Za-z_][A-Za-z0-9_]*![0-9]+) `)

var symRe = regexp.MustCompile(`[A-Za-z_][A-Za-z0-9_]*![0-9]+`)

func symsOf(t string) []string { return symRe.FindAllString(t, -1) }

// slice returns the background lines in the cone of influence of the given terms, restricted to bg[:ndecl].
// Dropping lines only removes hypotheses, so slicing can never make a false goal provable.
func (c *Ctx) slice(ndecl int, terms ...string) []string { return c.sliceCut(ndecl, "", terms...) }

// sliceCut: as slice, but the symbol cut (a path-condition constant) is left unconstrained: its defining equation and
// the assumptions guarded by it are not included, so the query no longer depends on how that program point was reached
func (c *Ctx) sliceCut(ndecl int, cut string, terms ...string) []string {
	c.mu.Lock()
	c.buildIndex()
	c.mu.Unlock()
	cuts := map[string]bool{}
	for _, s := range strings.Split(cut, " ") {
		if s != "" {
			cuts[s] = true
		}
	}
	return c.sliceIndexed(ndecl, cuts, terms...)
}

func (c *Ctx) buildIndex() {
	if c.defIdx == nil {
		c.defIdx = map[string][]int{}
	}
	for i := c.indexed; i < len(c.bg); i++ {
		l := &c.bg[i]
		l.syms = symsOf(l.text)
		if l.def != "" {
			c.defIdx[l.def] = append(c.defIdx[l.def], i)
		} else if l.kind == 'a' {
			// a guarded assumption (=> g P) is relevant exactly when its guard is on the goal's path; an unguarded one
			// when it mentions a symbol of the cone. (Assumed contract clauses are emitted without auxiliary
			// definitions, so their text mentions the constrained symbols directly.)
			if m := guardedRe.FindStringSubmatch(l.text); m != nil {
				c.useIdx(m[1], i)
			} else {
				for _, s := range l.syms {
					c.useIdx(s, i)
				}
			}
		}
	}
	c.indexed = len(c.bg)
}

func (c *Ctx) sliceIndexed(ndecl int, cuts map[string]bool, terms ...string) []string {
	in := make([]bool, ndecl)
	cone := map[string]bool{}
	var work []string
	why := os.Getenv("GOVC_WHY")
	parent := map[string]string{}
	cur := "goal"
	push := func(s string) {
		if !cone[s] {
			cone[s] = true
			work = append(work, s)
			if why != "" {
				parent[s] = cur
			}
		}
	}
	for _, t := range terms {
		for _, s := range symsOf(t) {
			push(s)
		}
	}
	for len(work) > 0 {
		s := work[len(work)-1]
		work = work[:len(work)-1]
		for _, i := range c.defIdx[s] {
			if cuts[s] && c.bg[i].kind != 'd' {
				continue
			}
			if i < ndecl && !in[i] {
				in[i] = true
				cur = s + " [def] " + c.bg[i].text
				for _, t := range c.bg[i].syms {
					push(t)
				}
			}
		}
		for _, i := range c.uses[s] {
			if cuts[s] {
				continue
			}
			if i < ndecl && !in[i] {
				in[i] = true
				cur = s + " [assumption] " + c.bg[i].text
				for _, t := range c.bg[i].syms {
					push(t)
				}
			}
		}
	}
	if why != "" && cone[why] {
		for s := why; s != "" && s != "goal"; {
			p := parent[s]
			if len(p) > 260 {
				p = p[:260]
			}
			fmt.Fprintln(os.Stderr, "WHY", s, "<-", p)
			s = strings.SplitN(parent[s], " ", 2)[0]
		}
	}
	var out []string
	for i := 0; i < ndecl; i++ {
		if in[i] || c.bg[i].kind == 'g' {
			out = append(out, c.bg[i].text)
		}
	}
	return out
}

func (c *Ctx) useIdx(s string, i int) {
	if c.uses == nil {
		c.uses = map[string][]int{}
	}
	c.uses[s] = append(c.uses[s], i)
}

// ---------- obligations ----------

func (c *Ctx) addObl(o Obl) *Obl {
	o.NDecl = len(c.bg)
	o.ctx = c
	if o.Expect == "" {
		o.Expect = "unsat"
	}
	if c.oblNames == nil {
		c.oblNames = map[string]int{}
	}
	c.oblNames[o.Name]++
	if k := c.oblNames[o.Name]; k > 1 {
		o.Name = fmt.Sprintf("%s~%d", o.Name, k)
	}
	if o.Tag == nil && c.tag != nil {
		o.Tag = map[string]string{}
		for k, v := range c.tag {
			o.Tag[k] = v
		}
	}
	p := &o
	c.obls = append(c.obls, p)
	return p
}

// oblige emits a safety obligation and then assumes it on the current path (assert-then-assume).
func (c *Ctx) oblige(st *State, kind string, pos string, goal string, text string) {
	if goal == "true" {
		return
	}
	c.safeN[kind]++
	name := fmt.Sprintf("%s/%s#%d", c.unit, kind, c.safeN[kind])
	og := goal
	if c.panicOK != "" && c.panicOK != "false" {
		og = or(goal, c.panicOK) // a run-time panic is acceptable exactly under a declared 'panics when' condition
		text += " (or a declared panic condition holds)"
	}
	c.addObl(Obl{Name: name, Kind: kind, Guard: st.guard, Goal: og, Pos: pos, Text: text})
	if goal != "false" {
		st.guard = c.defRaw("g", "Bool", and(st.guard, goal))
	} else {
		st.guard = "false"
	}
}

func (o *Obl) script(extra string) string {
	c := o.ctx
	var sb strings.Builder
	sb.WriteString("(set-option :produce-models true)\n")
	if o.OpaqueSpec {
		// the goal follows from the assumed (separately proved) loop summaries by congruence: the wire spec functions
		// stay uninterpreted here, which keeps the query small
		for _, l := range strings.SplitAfter(c.preamble(), "\n") {
			switch {
			case strings.HasPrefix(l, "(define-fun VarintEnd ("):
				l = "(declare-fun VarintEnd ((Array (_ BitVec 64) (_ BitVec 8)) (_ BitVec 64)) (_ BitVec 64))\n"
			case strings.HasPrefix(l, "(define-fun VarintVal ("):
				l = "(declare-fun VarintVal ((Array (_ BitVec 64) (_ BitVec 8)) (_ BitVec 64)) (_ BitVec 64))\n"
			}
			sb.WriteString(l)
		}
	} else {
		sb.WriteString(c.preamble())
	}
	pre := c.pre
	if pre == "" {
		pre = "true"
	}
	cutSym := ""
	if o.useCut {
		cutSym = o.CutGuard + " " + strings.Join(o.CutSyms, " ")
	}
	for _, l := range c.sliceCut(o.NDecl, cutSym, pre, o.Guard, o.Goal, extra) {
		sb.WriteString(l)
		sb.WriteByte('\n')
	}
	if pre != "true" {
		sb.WriteString("(assert " + pre + ")\n")
	}
	if extra != "" {
		sb.WriteString("(assert " + extra + ")\n")
	}
	sb.WriteString("(assert " + o.Guard + ")\n")
	if o.Expect == "sat" {
		sb.WriteString("(assert " + o.Goal + ")\n")
	} else {
		sb.WriteString("(assert (not " + o.Goal + "))\n")
	}
	sb.WriteString("(check-sat)\n(get-model)\n")
	return sb.String()
}

// ---------- solvers ----------

type solverCfg struct {
	name string
	args func(file string, timeoutS int) []string
	pre  string
}

var solvers = []solverCfg{
	{"z3-new", func(f string, t int) []string { return []string{"z3-new", fmt.Sprintf("-T:%d", t), f} }, ""},
	{"z3", func(f string, t int) []string { return []string{"z3", fmt.Sprintf("-T:%d", t), f} }, ""},
	{"cvc5", func(f string, t int) []string {
		return []string{"cvc5", "--produce-models", fmt.Sprintf("--tlimit=%d", t*1000), f}
	}, "(set-logic ALL)\n"},
}

var scratchDir string

func scratch() string {
	if scratchDir == "" {
		d, err := os.MkdirTemp("", "govc-")
		if err != nil {
			panic(err)
		}
		scratchDir = d
	}
	return scratchDir
}
func cleanupScratch() {
	if scratchDir != "" && os.Getenv("GOVC_KEEP") == "" {
		os.RemoveAll(scratchDir)
	}
}

var fileSeq int
var fileMu sync.Mutex

func runSolverCtx(ctx context.Context, sc solverCfg, script string, timeoutS int) (res, rest string, dur time.Duration) {
	fileMu.Lock()
	fileSeq++
	fn := filepath.Join(scratch(), fmt.Sprintf("q%d.smt2", fileSeq))
	fileMu.Unlock()
	body := script
	if sc.pre != "" {
		body = "(set-option :produce-models true)\n" + sc.pre + strings.TrimPrefix(script, "(set-option :produce-models true)\n")
	}
	os.WriteFile(fn, []byte(body), 0o644)
	defer os.Remove(fn)
	args := sc.args(fn, timeoutS)
	cctx, cancel := context.WithTimeout(ctx, time.Duration(timeoutS+5)*time.Second)
	defer cancel()
	t0 := time.Now()
	cmd := exec.CommandContext(cctx, args[0], args[1:]...)
	var out bytes.Buffer
	cmd.Stdout = &out
	cmd.Stderr = &out
	cmd.Run()
	dur = time.Since(t0)
	lines := strings.SplitN(out.String(), "\n", 2)
	res = strings.TrimSpace(lines[0])
	if len(lines) > 1 {
		rest = lines[1]
	}
	switch res {
	case "sat", "unsat", "unknown":
	case "timeout":
	default:
		if strings.Contains(out.String(), "timeout") || cctx.Err() != nil {
			res = "timeout"
		} else {
			rest = out.String()
			res = "error"
		}
	}
	return
}

func runSolver(sc solverCfg, script string, timeoutS int) (string, string, time.Duration) {
	return runSolverCtx(context.Background(), sc, script, timeoutS)
}

// solveOne: quantifier-free queries go to z3-new first (then z3 4.8 and cvc5 are raced); queries with quantifiers are
// raced on all three back ends at once (each wins a different class), the first definitive answer is taken.
func solveOne(o *Obl, timeoutS int) Result {
	script := o.script("")
	if d := os.Getenv("GOVC_DUMP"); d != "" && strings.Contains(o.Name, d) {
		os.MkdirAll("/tmp/govc-dump", 0o755)
		os.WriteFile("/tmp/govc-dump/"+sanitize(o.Name)+".smt2", []byte(script), 0o644)
	}
	r := Result{Obl: o}
	var total time.Duration
	race := solvers
	if !strings.Contains(script, "(forall ") && !strings.Contains(script, "(exists ") {
		first := timeoutS
		if first > 12 {
			first = 12 // a first attempt on one back end; what z3-new cannot do in that time is raced on all back ends with the full timeout (a shorter first attempt made loaded machines race — and thrash — on queries that need 5-8 s under load)
		}
		res, rest, d := runSolver(solvers[0], script, first)
		total += d
		r.Res, r.Backend, r.Raw = res, solvers[0].name, rest
		if res == "sat" || res == "unsat" || res == "error" {
			if res == "sat" {
				r.Model = rest
			}
			r.Dur = total
			return r
		}
		if first == timeoutS {
			race = solvers[1:]
		}
	}
	type ans struct {
		res, rest, name string
		d               time.Duration
	}
	ctx, cancel := context.WithCancel(context.Background())
	defer cancel()
	ch := make(chan ans, len(race))
	for _, sc := range race {
		go func(sc solverCfg) {
			res, rest, d := runSolverCtx(ctx, sc, script, timeoutS)
			ch <- ans{res, rest, sc.name, d}
		}(sc)
	}
	var last ans
	for i := 0; i < len(race); i++ {
		a := <-ch
		if a.res == "sat" || a.res == "unsat" {
			// a "sat" from a quantified query is only trusted from z3 (MBQI-checked); cvc5 answers unknown instead
			r.Res, r.Backend, r.Raw = a.res, a.name, a.rest
			if a.res == "sat" {
				r.Model = a.rest
			}
			r.Dur = total + a.d
			return r
		}
		if a.d > last.d {
			last = a
		}
		if r.Res == "" || r.Res == "error" {
			r.Res, r.Backend, r.Raw = a.res, a.name, a.rest
		}
	}
	r.Dur = total + last.d
	return r
}

var genSymRe = regexp.MustCompile(`[^\s()]+![0-9]+`)

// canonical: the query with every generated symbol renamed by order of first appearance. Two obligations with the same
// canonical text are the same formula up to the names of their constants (the varint decode loops of generated code
// produce hundreds of those), so one answer serves all of them.
func canonical(script string) string {
	names := map[string]string{}
	return genSymRe.ReplaceAllStringFunc(script, func(m string) string {
		if r, ok := names[m]; ok {
			return r
		}
		r := "s" + strconv.Itoa(len(names))
		names[m] = r
		return r
	})
}

func solveAll(obls []*Obl, timeoutS int, workers int) []Result {
	res := make([]Result, len(obls))
	// context-free attempt for obligations that name a cut point: one proof per distinct code shape
	done := make([]bool, len(obls))
	{
		type grp struct {
			rep     int
			members []int
		}
		var mu sync.Mutex
		groups := map[[32]byte]*grp{}
		var wg sync.WaitGroup
		sem := make(chan struct{}, workers)
		for i, o := range obls {
			if o.CutGuard == "" || o.Expect == "sat" || !genSymRe.MatchString(o.CutGuard) || strings.ContainsAny(o.CutGuard, " ()") {
				continue
			}
			wg.Add(1)
			sem <- struct{}{}
			go func(i int, o *Obl) {
				defer wg.Done()
				defer func() { <-sem }()
				oc := *o
				oc.useCut = true
				k := sha256.Sum256([]byte(canonical(oc.script(""))))
				mu.Lock()
				if g, ok := groups[k]; ok {
					g.members = append(g.members, i)
				} else {
					groups[k] = &grp{rep: i, members: []int{i}}
				}
				mu.Unlock()
			}(i, o)
		}
		wg.Wait()
		var gl []*grp
		for _, g := range groups {
			gl = append(gl, g)
		}
		var wg2 sync.WaitGroup
		sem2 := make(chan struct{}, workers)
		for _, g := range gl {
			wg2.Add(1)
			sem2 <- struct{}{}
			go func(g *grp) {
				defer wg2.Done()
				defer func() { <-sem2 }()
				oc := *obls[g.rep]
				oc.useCut = true
				r := solveOne(&oc, timeoutS)
				if r.Res != "unsat" {
					return // decided with the full context below
				}
				for _, i := range g.members {
					rr := Result{Obl: obls[i], Res: "unsat", Backend: r.Backend + " (context-free)", Shared: obls[g.rep].Name}
					if i == g.rep {
						rr.Dur = r.Dur
						rr.Shared = ""
					}
					res[i] = rr
					done[i] = true
				}
			}(g)
		}
		wg2.Wait()
	}
	// group alpha-equivalent queries
	rep := make([]int, len(obls)) // representative index
	groups := map[[32]byte]int{}
	{
		var wg sync.WaitGroup
		keys := make([][32]byte, len(obls))
		sem := make(chan struct{}, workers)
		for i := range obls {
			if done[i] {
				continue
			}
			wg.Add(1)
			sem <- struct{}{}
			go func(i int) {
				defer wg.Done()
				defer func() { <-sem }()
				keys[i] = sha256.Sum256([]byte(obls[i].Expect + "\x00" + canonical(obls[i].script(""))))
			}(i)
		}
		wg.Wait()
		for i := range obls {
			if done[i] {
				rep[i] = i
				continue
			}
			if j, ok := groups[keys[i]]; ok {
				rep[i] = j
			} else {
				groups[keys[i]] = i
				rep[i] = i
			}
		}
	}
	var wg sync.WaitGroup
	ch := make(chan int)
	for w := 0; w < workers; w++ {
		wg.Add(1)
		go func() {
			defer wg.Done()
			for i := range ch {
				res[i] = solveOne(obls[i], timeoutS)
			}
		}()
	}
	for i := range obls {
		if rep[i] == i && !done[i] {
			ch <- i
		}
	}
	close(ch)
	wg.Wait()
	// members: share a proof, re-solve anything else (models name the member's own constants)
	var wg2 sync.WaitGroup
	ch2 := make(chan int)
	for w := 0; w < workers; w++ {
		wg2.Add(1)
		go func() {
			defer wg2.Done()
			for i := range ch2 {
				res[i] = solveOne(obls[i], timeoutS)
			}
		}()
	}
	for i := range obls {
		if rep[i] == i || done[i] {
			continue
		}
		r := res[rep[i]]
		if r.Res == "unsat" && obls[i].Expect != "sat" {
			res[i] = Result{Obl: obls[i], Res: "unsat", Backend: r.Backend, Shared: obls[rep[i]].Name}
			continue
		}
		ch2 <- i
	}
	close(ch2)
	wg2.Wait()
	return res
}

// ---------- model parsing ----------

var modelDefRe = regexp.MustCompile(`\(define-fun\s+(\S+)\s+\(\)\s+(\(_ BitVec \d+\)|Int|Bool)\s+([^\n]*?)\)\s*$`)

// parseModel extracts scalar constants from a z3/cvc5 model (arrays are handled by evalInModel queries instead).
func parseModel(m string) map[string]string {
	out := map[string]string{}
	// join continuation lines: z3 prints "(define-fun x () Int\n    5)"
	flat := regexp.MustCompile(`\n\s+`).ReplaceAllString(m, " ")
	for _, l := range strings.Split(flat, "\n") {
		l = strings.TrimSpace(l)
		if mm := modelDefRe.FindStringSubmatch(l); mm != nil {
			out[mm[1]] = strings.TrimSpace(mm[3])
		}
	}
	return out
}

func smtValToBig(v string) (*big.Int, bool) {
	v = strings.TrimSpace(v)
	if strings.HasPrefix(v, "#x") {
		b, ok := new(big.Int).SetString(v[2:], 16)
		return b, ok
	}
	if strings.HasPrefix(v, "#b") {
		b, ok := new(big.Int).SetString(v[2:], 2)
		return b, ok
	}
	if strings.HasPrefix(v, "(_ bv") {
		f := strings.Fields(v[5:])
		b, ok := new(big.Int).SetString(f[0], 10)
		return b, ok
	}
	if strings.HasPrefix(v, "(- ") {
		b, ok := new(big.Int).SetString(strings.TrimSuffix(strings.TrimSpace(v[3:]), ")"), 10)
		if ok {
			b.Neg(b)
		}
		return b, ok
	}
	b, ok := new(big.Int).SetString(v, 10)
	return b, ok
}

// evalTerms asks the solver for the values of terms in a model of the failing obligation (with optional extra constraint).
func evalTerms(o *Obl, extra string, terms []string, timeoutS int) (map[string]string, bool) {
	script := o.script(extra)
	script = strings.Replace(script, "(get-model)\n", "", 1)
	var sb strings.Builder
	sb.WriteString(script)
	for _, t := range terms {
		sb.WriteString("(get-value (" + t + "))\n")
	}
	for _, sc := range solvers[:2] {
		res, rest, _ := runSolver(sc, sb.String(), timeoutS)
		if res != "sat" {
			if res == "unsat" {
				return nil, false
			}
			continue
		}
		out := map[string]string{}
		lines := strings.Split(strings.TrimSpace(rest), "\n")
		for i, t := range terms {
			if i >= len(lines) {
				break
			}
			l := strings.TrimSpace(lines[i])
			// ((term value))
			l = strings.TrimPrefix(l, "((")
			l = strings.TrimSuffix(l, "))")
			if strings.HasPrefix(l, t) {
				out[t] = strings.TrimSpace(l[len(t):])
			}
		}
		return out, true
	}
	return nil, false
}

func sortedKeys[V any](m map[string]V) []string {
	ks := make([]string, 0, len(m))
	for k := range m {
		ks = append(ks, k)
	}
	sort.Strings(ks)
	return ks
}
