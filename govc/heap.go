package main

// Heap model: per-type, per-field arrays indexed by object reference (Burstall/Bornat).
// A store to one field frames every other field for free.

import (
	"fmt"
	"go/types"
	"strings"
)

func (c *Ctx) heapArr(st *State, k, sort string) string {
	c.heapSorts[k] = sort
	h, ok := st.heap[k]
	if !ok {
		h = c.freshRaw("H_"+k[4:], sort)
		st.heap[k] = h
	}
	return h
}

func (c *Ctx) heapPut(st *State, k, sort, ref, val string) {
	h := c.heapArr(st, k, "(Array Int "+sort+")")
	st.heap[k] = c.defRaw("H_"+k[4:], "(Array Int "+sort+")", "(store "+h+" "+ref+" "+val+")")
}
func (c *Ctx) heapGet(st *State, k, sort, ref string) string {
	return "(select " + c.heapArr(st, k, "(Array Int "+sort+")") + " " + ref + ")"
}

func fieldBase(p PtrV, f string) string { return "fld:" + p.TypeName() + "." + f }

func (c *Ctx) loadField(st *State, p PtrV, f string) Val {
	ft := fieldType(p.Struct(), f)
	if ft == nil {
		panic(unsupported{"no field " + f + " in " + p.TypeName()})
	}
	v := c.loadAt(st, fieldBase(p, f), p.Ref, f, ft)
	// message values are finite and acyclic: a field of the holder's own type never points back at the holder
	if q, ok := v.(PtrV); ok && q.Named != nil && p.Named != nil && q.Named.Obj() == p.Named.Obj() && q.Ref != "0" {
		c.assume("(or (= " + p.Ref + " 0) (not (= " + q.Ref + " " + p.Ref + ")))")
	}
	return v
}

// loadAt reads a value of type ft stored under heap key base at reference ref.
func (c *Ctx) loadAt(st *State, base, ref, nm string, ft types.Type) Val {
	is := c.idx().smt()
	if s, ok := c.sortOf(ft); ok {
		v := c.def(nm, s, c.heapGet(st, base, s.smt(), ref))
		c.assumeRange(v, s)
		return Scalar{v, s}
	}
	switch t := ft.Underlying().(type) {
	case *types.Basic:
		if isString(ft) {
			ln := c.defRaw(nm+"_len", is, c.heapGet(st, base+".len", is, ref))
			c.assume(c.lenBounds(ln))
			arr := c.defRaw(nm+"_bytes", c.byteArrSort(), c.heapGet(st, base+".bytes", c.byteArrSort(), ref))
			return SliceV{Arr: arr, Off: c.ilit(0), Len: ln, Cap: ln, Nil: "false", Prov: "field:" + base, IsStr: true}
		}
	case *types.Slice:
		ln := c.defRaw(nm+"_len", is, c.heapGet(st, base+".len", is, ref))
		nl := c.defRaw(nm+"_nil", "Bool", c.heapGet(st, base+".nil", "Bool", ref))
		c.assume(and(c.lenBounds(ln), implies(nl, "(= "+ln+" "+c.ilit(0)+")")))
		if isByte(t.Elem()) {
			arr := c.defRaw(nm+"_bytes", c.byteArrSort(), c.heapGet(st, base+".bytes", c.byteArrSort(), ref))
			return SliceV{Arr: arr, Off: c.ilit(0), Len: ln, Cap: ln, Nil: nl, Prov: "field:" + base}
		}
		es := c.listArrSort(t.Elem())
		elems := c.defRaw(nm+"_elems", es, c.heapGet(st, base+".elems", es, ref))
		return ListV{Len: ln, Elems: elems, Nil: nl, ElemT: t.Elem(), Prov: "field:" + base}
	case *types.Map:
		ln := c.defRaw(nm+"_len", is, c.heapGet(st, base+".len", is, ref))
		nl := c.defRaw(nm+"_nil", "Bool", c.heapGet(st, base+".nil", "Bool", ref))
		c.assume(and(c.lenBounds(ln), implies(nl, "(= "+ln+" "+c.ilit(0)+")")))
		ks, vs := c.listArrSort(t.Key()), c.listArrSort(t.Elem())
		id := c.defRaw(nm+"_mapid", "Int", c.heapGet(st, base+".id", "Int", ref))
		return MapV{Len: ln, Nil: nl, Keys: c.defRaw(nm+"_keys", ks, c.heapGet(st, base+".keys", ks, ref)), Vals: c.defRaw(nm+"_vals", vs, c.heapGet(st, base+".vals", vs, ref)), KeyT: t.Key(), ValT: t.Elem(), Id: id}
	case *types.Pointer:
		r := c.defRaw(nm+"_ref", "Int", c.heapGet(st, base, "Int", ref))
		c.assumeRef(r)
		nt, _ := t.Elem().(*types.Named)
		if _, isSlice := t.Elem().Underlying().(*types.Slice); isSlice || isMapType(t.Elem()) {
			// pointer to a container (list/map wrappers): cell identity
			return PtrV{Ref: r, Named: nil, Cell: "cell:" + types.TypeString(t.Elem(), nil), CellT: t.Elem()}
		}
		return PtrV{Ref: r, Named: nt}
	case *types.Interface:
		if types.Implements(ft, errorIface) && t.NumMethods() == 1 {
			return ErrV{c.defRaw(nm+"_err", "Int", c.heapGet(st, base, "Int", ref))}
		}
		tag := c.defRaw(nm+"_tag", "Int", c.heapGet(st, base+".tag", "Int", ref))
		r := c.defRaw(nm+"_wref", "Int", c.heapGet(st, base+".ref", "Int", ref))
		c.assume(and("(>= "+tag+" 0)", implies("(= "+tag+" 0)", "(= "+r+" 0)")))
		c.assumeRef(r)
		return IfaceV{Tag: tag, Ref: r, T: ft}
	}
	return OpaqueV{T: ft}
}

func isMapType(t types.Type) bool { _, ok := t.Underlying().(*types.Map); return ok }

func (c *Ctx) storeField(st *State, p PtrV, f string, v Val, pos string) {
	ft := fieldType(p.Struct(), f)
	if ft == nil {
		panic(unsupported{"no field " + f + " in " + p.TypeName()})
	}
	prov := ""
	switch x := v.(type) {
	case SliceV:
		prov = x.Prov
	case ListV:
		prov = x.Prov
	}
	c.stores = append(c.stores, StoreRec{Key: fieldBase(p, f), Ref: p.Ref, Guard: st.guard, Prov: prov, Pos: pos, TPos: c.curPos})
	c.storeAt(st, fieldBase(p, f), p.Ref, ft, v)
}

func (c *Ctx) storeAt(st *State, base, ref string, ft types.Type, v Val) {
	is := c.idx().smt()
	if s, ok := c.sortOf(ft); ok {
		sv, isS := v.(Scalar)
		if !isS {
			panic(unsupported{fmt.Sprintf("store of %T into scalar field %s", v, base)})
		}
		if sv.S.K == "i2b" {
			// truncation of a mathematical integer to a sized type: value abstracted (never int2bv)
			c.abstracted("int -> sized integer truncation stored into " + base)
			sv = Scalar{c.fresh("trunc", s), s}
		}
		c.heapPut(st, base, s.smt(), ref, sv.T)
		return
	}
	switch t := ft.Underlying().(type) {
	case *types.Basic:
		if isString(ft) {
			sv, ok := v.(SliceV)
			if !ok {
				if _, isOp := v.(OpaqueV); isOp {
					c.heapPut(st, base+".len", is, ref, c.freshLen("olen"))
					c.heapPut(st, base+".bytes", c.byteArrSort(), ref, c.freshRaw("obytes", c.byteArrSort()))
					return
				}
				panic(unsupported{fmt.Sprintf("store of %T into string field %s", v, base)})
			}
			c.heapPut(st, base+".len", is, ref, sv.Len)
			c.heapPut(st, base+".bytes", c.byteArrSort(), ref, c.shifted(st, sv))
			return
		}
	case *types.Slice:
		switch x := v.(type) {
		case SliceV:
			c.heapPut(st, base+".len", is, ref, x.Len)
			c.heapPut(st, base+".nil", "Bool", ref, x.Nil)
			c.heapPut(st, base+".bytes", c.byteArrSort(), ref, c.shifted(st, x))
			return
		case ListV:
			c.heapPut(st, base+".len", is, ref, x.Len)
			c.heapPut(st, base+".nil", "Bool", ref, x.Nil)
			c.heapPut(st, base+".elems", c.listArrSort(t.Elem()), ref, x.Elems)
			return
		case OpaqueV:
			c.heapPut(st, base+".len", is, ref, c.freshLen("olen"))
			c.heapPut(st, base+".nil", "Bool", ref, c.freshRaw("onil", "Bool"))
			return
		}
	case *types.Map:
		if _, isOp := v.(OpaqueV); isOp {
			m := c.symbolicMap("omap", t)
			v = m
		}
		if m, ok := v.(MapV); ok {
			c.heapPut(st, base+".len", is, ref, m.Len)
			c.heapPut(st, base+".nil", "Bool", ref, m.Nil)
			c.heapPut(st, base+".keys", c.listArrSort(t.Key()), ref, m.Keys)
			c.heapPut(st, base+".vals", c.listArrSort(t.Elem()), ref, m.Vals)
			c.heapPut(st, base+".id", "Int", ref, m.Id)
			return
		}
	case *types.Pointer:
		switch x := v.(type) {
		case PtrV:
			c.heapPut(st, base, "Int", ref, x.Ref)
			if x.Cell != "" {
				c.heapPut(st, base+".cell", "Int", ref, fmt.Sprint(intern(x.Cell))) // which container the pointer designates (&x.F)
			}
			return
		case ErrV:
			c.heapPut(st, base, "Int", ref, x.T)
			return
		}
	case *types.Interface:
		switch x := v.(type) {
		case IfaceV:
			c.heapPut(st, base+".tag", "Int", ref, x.Tag)
			c.heapPut(st, base+".ref", "Int", ref, x.Ref)
			return
		case ErrV:
			if types.Implements(ft, errorIface) && t.NumMethods() == 1 {
				c.heapPut(st, base, "Int", ref, x.T)
				return
			}
			c.heapPut(st, base+".tag", "Int", ref, x.T)
			c.heapPut(st, base+".ref", "Int", ref, "0")
			return
		case PtrV:
			if x.Named != nil {
				c.heapPut(st, base+".tag", "Int", ref, fmt.Sprintf("(ite (= %s 0) %d %d)", x.Ref, c.typeTag(x.Named), c.typeTag(x.Named)))
				c.heapPut(st, base+".ref", "Int", ref, x.Ref)
				return
			}
			if x.Ref == "0" {
				c.heapPut(st, base+".tag", "Int", ref, "0")
				c.heapPut(st, base+".ref", "Int", ref, "0")
				return
			}
		}
	case *types.Struct:
		return // struct-valued fields (MessageState, sizeCache holders) are not modelled
	}
	if _, isOp := v.(OpaqueV); isOp {
		c.abstracted("store of unmodelled value into " + base)
		return
	}
	panic(unsupported{fmt.Sprintf("store of %T into %s (%s)", v, base, ft)})
}

func (c *Ctx) freshLen(nm string) string {
	ln := c.fresh(nm, c.idx())
	c.assume(c.lenBounds(ln))
	return ln
}

// shifted returns an array term whose index 0 is the slice's first byte (content snapshot at store time)
func (c *Ctx) shifted(st *State, sv SliceV) string {
	arr := c.sliceArr(st, sv)
	if sv.Off == c.ilit(0) {
		return arr
	}
	// a fresh array related pointwise through a quantified axiom would need triggers; content of re-based slices is
	// only needed by the C02/C03 engines, which keep offsets explicit. Safety/size proofs only need the length.
	sh := c.freshRaw("shifted", c.byteArrSort())
	c.declareFun("ShiftOf", "("+c.byteArrSort()+" "+c.idx().smt()+") "+c.byteArrSort())
	c.assume("(= " + sh + " (ShiftOf " + arr + " " + sv.Off + "))")
	return sh
}

func (c *Ctx) allocStruct(st *State, nt *types.Named) PtrV {
	c.allocN++
	return PtrV{Ref: fmt.Sprintf("(- %d)", c.allocN), Named: nt}
}

func (c *Ctx) storeStruct(st *State, p PtrV, sv StructV) {
	s := p.Struct()
	if s == nil {
		return
	}
	for i := 0; i < s.NumFields(); i++ {
		f := s.Field(i)
		v, ok := sv.F[f.Name()]
		if !ok {
			v = c.zeroValue(f.Type())
		}
		if _, isOp := v.(OpaqueV); isOp {
			continue
		}
		if _, isStruct := f.Type().Underlying().(*types.Struct); isStruct {
			continue
		}
		c.storeAt(st, fieldBase(p, f.Name()), p.Ref, f.Type(), v)
	}
}

func (c *Ctx) loadStruct(st *State, p PtrV) StructV {
	s := p.Struct()
	sv := StructV{F: map[string]Val{}, T: p.Named}
	for i := 0; i < s.NumFields(); i++ {
		f := s.Field(i)
		if _, isStruct := f.Type().Underlying().(*types.Struct); isStruct {
			sv.F[f.Name()] = OpaqueV{T: f.Type()}
			continue
		}
		sv.F[f.Name()] = c.loadField(st, p, f.Name())
	}
	return sv
}

// cells: pointers to containers (*[]T, *map[K]V) used by list/map wrappers, and &x.F
func (c *Ctx) cellType(p PtrV) types.Type {
	if p.CellT != nil && strings.HasPrefix(p.Cell, "cell:") {
		return p.CellT
	}
	if p.Named != nil && len(p.Cell) > 4 && p.Cell[:4] == "fld:" {
		// &x.F
		for i := 0; i < p.Struct().NumFields(); i++ {
			if "fld:"+p.TypeName()+"."+p.Struct().Field(i).Name() == p.Cell {
				return p.Struct().Field(i).Type()
			}
		}
	}
	return nil
}

func (c *Ctx) loadCell(st *State, p PtrV) Val {
	if t := c.cellType(p); t != nil {
		return c.loadAt(st, p.Cell, p.Ref, "cell", t)
	}
	c.abstracted("load through container pointer")
	return OpaqueV{}
}

func (c *Ctx) storeCell(st *State, p PtrV, v Val, pos string) {
	if t := c.cellType(p); t != nil {
		c.stores = append(c.stores, StoreRec{Key: p.Cell, Ref: p.Ref, Guard: st.guard, Pos: pos})
		c.storeAt(st, p.Cell, p.Ref, t, v)
		return
	}
	c.abstracted("store through container pointer")
}

func (c *Ctx) listElem(st *State, lv ListV, j string) Val {
	t := "(select " + lv.Elems + " " + j + ")"
	if s, ok := c.sortOf(lv.ElemT); ok {
		return Scalar{c.def("elem", s, t), s}
	}
	id := c.defRaw("elem", "Int", t)
	return c.valueOfID(st, id, lv.ElemT)
}

// valueOfID: list elements / map keys and values of non-scalar type are Int ids; pointers use the id as reference,
// strings and byte slices get their length/content from uninterpreted functions of the id.
func (c *Ctx) valueOfID(st *State, id string, t types.Type) Val {
	switch u := t.Underlying().(type) {
	case *types.Pointer:
		c.assumeRef(id)
		nt, _ := u.Elem().(*types.Named)
		return PtrV{Ref: id, Named: nt}
	case *types.Basic:
		if isString(t) {
			return c.bytesOfID(id, true)
		}
	case *types.Slice:
		if isByte(u.Elem()) {
			return c.bytesOfID(id, false)
		}
	}
	return OpaqueV{T: t}
}

func (c *Ctx) declBytesFuns() {
	is := c.idx().smt()
	if c.declared["BytesLen"] {
		return
	}
	c.declareFun("BytesLen", "(Int) "+is)
	c.declareFun("BytesArr", "(Int) "+c.byteArrSort())
	c.global("(assert (forall ((b Int)) (! " + c.lenBounds("(BytesLen b)") + " :pattern ((BytesLen b)))))")
}

func (c *Ctx) bytesOfID(id string, isStr bool) SliceV {
	is := c.idx().smt()
	c.declBytesFuns()
	ln := c.defRaw("elen", is, "(BytesLen "+id+")")
	c.assume(c.lenBounds(ln))
	return SliceV{Arr: c.defRaw("ebytes", c.byteArrSort(), "(BytesArr "+id+")"), Off: c.ilit(0), Len: ln, Cap: ln, Nil: "false", Prov: "field", IsStr: isStr, Id: id}
}

// idOfValue: inverse direction for appends / map stores of non-scalar values
func (c *Ctx) idOfValue(st *State, v Val) string {
	switch x := v.(type) {
	case Scalar:
		return x.T
	case PtrV:
		return x.Ref
	case SliceV:
		if x.Id != "" {
			return x.Id
		}
		c.declBytesFuns()
		memo := x.Arr + "|" + x.Region + "|" + x.Off + "|" + x.Len + "|" + st.heap[x.Region]
		if id, ok := c.bidMemo[memo]; ok {
			return id
		}
		id := c.freshRaw("bid", "Int")
		if c.bidMemo == nil {
			c.bidMemo = map[string]string{}
		}
		c.bidMemo[memo] = id
		c.assume("(= (BytesLen " + id + ") " + x.Len + ")")
		if x.Off == c.ilit(0) {
			c.assume("(= (BytesArr " + id + ") " + c.sliceArr(st, x) + ")")
		}
		return id
	case ErrV:
		return x.T
	}
	return c.freshRaw("oid", "Int")
}

func (c *Ctx) mapLookup(st *State, m MapV, k Val, commaOk bool) []Val {
	// lookup is abstract: result is some value of the element type; present iff key is in the enumeration
	c.declareFun("MapHas", "(Int Int) Bool")
	c.declareFun("MapGet", "(Int Int) Int")
	kid := c.keyID(st, k)
	has := c.defRaw("mhas", "Bool", "(MapHas "+m.Id+" "+kid+")")
	var v Val
	if s, ok := c.sortOf(m.ValT); ok {
		fn := "MapGet_" + sanitize(s.smt())
		c.declareFun(fn, "(Int Int) "+s.smt())
		v = Scalar{c.def("mval", s, "("+fn+" "+m.Id+" "+kid+")"), s}
	} else {
		id := c.defRaw("mval", "Int", "(MapGet "+m.Id+" "+kid+")")
		v = c.valueOfID(st, id, m.ValT)
		if p, isP := v.(PtrV); isP {
			c.assume(implies(not(has), "(= "+p.Ref+" 0)"))
		}
	}
	if commaOk {
		return []Val{v, Scalar{has, boolSort}}
	}
	return []Val{v}
}

func (c *Ctx) keyID(st *State, k Val) string {
	switch x := k.(type) {
	case Scalar:
		switch x.S.K {
		case "bool":
			return "(ite " + x.T + " 1 0)"
		case "bv":
			return "(bv2nat " + x.T + ")"
		}
		return x.T
	}
	return c.idOfValue(st, k)
}

// assumeRef: a reference read from the heap is nil (0), an object that existed at entry (> 0), or one of the
// allocations made so far (the negative literals -1 … -allocN); it can never alias a future allocation.
func (c *Ctx) assumeRef(r string) {
	c.assume(fmt.Sprintf("(>= %s (- %d))", r, c.allocN))
}
