package main

// Checks over the hand-written layer: every function whose contract names the property.

import (
	"fmt"
	"go/ast"
	"go/token"
	"go/types"
	"strings"
)

func handPatterns() []string {
	return []string{"./runtime", "./support/timepb", "./anyutil", "./any", "./generator", "./cmd/protoc-gen-go-pulsar", "./rapidproto", "./features/fastreflection",
		"google.golang.org/protobuf/encoding/protowire"}
}

func loadHand() (*Program, error) {
	return loadProgram(repoDir, handPatterns()...)
}

func handCheck(prop string, assumptions []string) checkFn {
	return func(rep *Report) error {
		p, err := loadHand()
		if err != nil {
			return err
		}
		unitsForProperty(p, rep, prop)
		if len(rep.Units) == 0 {
			return fmt.Errorf("no contract names property %s (contract files missing? build tag verif)", prop)
		}
		rep.Trusted = append(rep.Trusted, globalTrusted...)
		rep.Assumptions = append(rep.Assumptions, assumptions...)
		rep.Programs = []string{"hand-written functions of /repo named in contracts_verif.go files with 'property " + prop + "'"}
		rep.Replayer = replayHand
		return nil
	}
}

func init() {
	checks["C15"] = handCheck("C15", []string{
		"bits.Len64(x) is modelled by its definition: the least n with x < 2^n",
		"Skip on group records (wire types 3/4): only safety, progress and termination are proved; equality with the recursive record length is not stated (bounded stand-in not built)",
	})
	checks["C16"] = combine(handCheck("C16", []string{
		"protobuf-go is not re-verified: proto.MarshalOptions.Marshal, the registries, dynamicpb and anypb.UnmarshalTo have trusted contracts (listed); Unpack(Pack(m)) == m and the agreement of the two resolver paths rest on them",
		"a nil *anypb.Any is outside the input domain of Unpack (precondition)",
	}), aliasCheck)
	checks["C18"] = handCheck("C18", []string{
		"rapid: a value drawn from XRange(lo, hi) lies in [lo, hi]; rapid.String() is valid UTF-8; a failed assert aborts the run (trusted)",
		"'accepted by the reference marshaller / round-trips' is protobuf-go's behaviour on valid values; Any: typeURL is the resolver's own answer and value = Marshal(New()) by construction of genAny (not re-verified)",
		"not covered: the FieldMaps and DisallowNilMessages/NoEmptyLists options beyond the recursion measure",
	})
	checks["C17"] = handCheck("C17", []string{
		"machine arithmetic is modelled exactly as mathematical integers with explicit wrap-around (mod 2^64 / 2^32)",
		"AddStd: agreement with Add is not proved (time.Time arithmetic is outside the supported subset); Add is proved against the mathematical instant t+d directly",
	})
}

// C18: two ground obligations on the structure of the real function bodies (ghost provenance, decided on the AST)
func init() {
	unitPosts["rapidproto.GeneratorOptions.genScalarFieldValue"] = func(c *Ctx, u *Unit) {
		// every value handed to ValueOfEnum is the Number() of one of the enum's declared values
		n, ok := 0, true
		ast.Inspect(c.fdecl.Body, func(nd ast.Node) bool {
			call, isCall := nd.(*ast.CallExpr)
			if !isCall {
				return true
			}
			if sel, isSel := call.Fun.(*ast.SelectorExpr); isSel && sel.Sel.Name == "ValueOfEnum" && len(call.Args) == 1 {
				n++
				fromNumber := false
				ast.Inspect(call.Args[0], func(a ast.Node) bool {
					if s2, ok := a.(*ast.SelectorExpr); ok && s2.Sel.Name == "Number" {
						fromNumber = true
					}
					return true
				})
				if !fromNumber {
					ok = false
				}
			}
			return true
		})
		u.Grounds = append(u.Grounds, Ground{Name: u.Name + "/enum-value-is-a-declared-number", OK: ok && n > 0,
			Text: "the number stored into an enum field is EnumValueDescriptor.Number() of a declared value (not the index that was drawn)", Detail: fmt.Sprintf("%d ValueOfEnum call(s)", n),
			Tag: map[string]string{"kind": "overlay-test", "pkg": "rapidproto", "src": rapidEnumReplay}})
	}
	prevScalar := unitPosts["rapidproto.GeneratorOptions.genScalarFieldValue"]
	unitPosts["rapidproto.GeneratorOptions.genScalarFieldValue"] = func(c *Ctx, u *Unit) {
		prevScalar(c, u)
		// every string handed to ValueOfString is a rapid string draw as it was drawn (rapid's string generators yield
		// valid UTF-8, trusted; anything done to the string afterwards — clipping, concatenating bytes — is outside that)
		n, ok, detail := 0, true, ""
		ast.Inspect(c.fdecl.Body, func(nd ast.Node) bool {
			call, isCall := nd.(*ast.CallExpr)
			if !isCall {
				return true
			}
			sel, isSel := call.Fun.(*ast.SelectorExpr)
			if !isSel || sel.Sel.Name != "ValueOfString" || len(call.Args) != 1 {
				return true
			}
			n++
			direct := false
			if draw, isDraw := ast.Unparen(call.Args[0]).(*ast.CallExpr); isDraw {
				if ds, ok := draw.Fun.(*ast.SelectorExpr); ok && ds.Sel.Name == "Draw" {
					if gen, ok := ast.Unparen(ds.X).(*ast.CallExpr); ok {
						if fn := c.calleeFunc(gen); fn != nil && fn.Pkg() != nil && fn.Pkg().Path() == "pgregory.net/rapid" && strings.HasPrefix(fn.Name(), "String") {
							direct = true
						}
					}
				}
			}
			if !direct {
				ok = false
				detail = "ValueOfString(" + types.ExprString(call.Args[0]) + ")"
			}
			return true
		})
		u.Grounds = append(u.Grounds, Ground{Name: u.Name + "/string-value-is-the-drawn-string", OK: ok && n > 0,
			Text: "the string stored into a string field is a rapid string draw, unmodified (valid UTF-8 by rapid's contract)", Detail: detail,
			Tag: map[string]string{"kind": "overlay-test", "pkg": "rapidproto", "src": rapidStringReplay}})
	}
	unitPosts["rapidproto.GeneratorOptions.genFieldMask"] = func(c *Ctx, u *Unit) {
		// the list that receives the drawn paths is the message's own field: obtained through Mutable, or stored back with Set
		stored := false
		ast.Inspect(c.fdecl.Body, func(nd ast.Node) bool {
			call, isCall := nd.(*ast.CallExpr)
			if !isCall {
				return true
			}
			if sel, isSel := call.Fun.(*ast.SelectorExpr); isSel && (sel.Sel.Name == "Set" || sel.Sel.Name == "Mutable") {
				if id, ok := sel.X.(*ast.Ident); ok && id.Name == "msg" && len(call.Args) >= 1 {
					if a, ok := call.Args[0].(*ast.Ident); ok && a.Name == "pathsField" {
						stored = true
					}
				}
			}
			return true
		})
		u.Grounds = append(u.Grounds, Ground{Name: u.Name + "/drawn-paths-reach-the-message", OK: stored,
			Text: "the FieldMask message holds the drawn paths: the filled list is the field's own list (Mutable) or is stored with Set",
			Tag:  map[string]string{"kind": "overlay-test", "pkg": "rapidproto", "src": rapidMaskReplay}})
	}
}

const rapidEnumReplay = `package rapidproto

import (
	"fmt"
	"testing"

	"github.com/cosmos/cosmos-proto/internal/testprotos/test3"
	"pgregory.net/rapid"
)

func TestGovcReplay(t *testing.T) {
	declared := map[int32]bool{}
	vals := (&test3.TestAllTypes{}).ProtoReflect().Descriptor().Fields().ByName("singular_nested_enum").Enum().Values()
	for i := 0; i < vals.Len(); i++ {
		declared[int32(vals.Get(i).Number())] = true
	}
	gen := MessageGenerator(&test3.TestAllTypes{}, GeneratorOptions{})
	seenNeg := false
	for i := 0; i < 400; i++ {
		m := gen.Example(i)
		n := int32(m.SingularNestedEnum)
		if n == -1 {
			seenNeg = true
		}
		if !declared[n] {
			fmt.Printf("GOVC-REPLAY: VIOLATED enum field drawn as %d, which is not a declared number of NestedEnum (FOO=0 BAR=1 BAZ=2 NEG=-1)\n", n)
			t.FailNow()
		}
	}
	if !seenNeg {
		fmt.Println("GOVC-REPLAY: VIOLATED declared value NEG=-1 is never drawn in 400 examples")
		t.FailNow()
	}
	_ = rapid.Bool
}
`

const rapidMaskReplay = `package rapidproto

import (
	"fmt"
	"testing"

	"google.golang.org/protobuf/types/known/fieldmaskpb"
)

func TestGovcReplay(t *testing.T) {
	gen := MessageGenerator(&fieldmaskpb.FieldMask{}, GeneratorOptions{})
	for i := 0; i < 20; i++ {
		m := gen.Example(i)
		if len(m.Paths) == 0 {
			fmt.Println("GOVC-REPLAY: VIOLATED FieldMask generated with no paths although 1..5 paths are drawn for it")
			t.FailNow()
		}
	}
}
`

// aliasCheck (C16): the deprecated package any (any/alias.go) is the anyutil API under another name. Each of New,
// MarshalFrom and Unpack there is either a package-level variable initialised with the anyutil function of the same
// name and never assigned afterwards, or a function whose body is `return anyutil.<same name>(<its parameters, in order>)`;
// the anyutil contracts then carry over unchanged.
func aliasCheck(rep *Report) error {
	p, err := loadHand()
	if err != nil {
		return err
	}
	pk := p.byPath[repoModule+"/any"]
	fail := func(name, detail string) {
		rep.Grounds = append(rep.Grounds, Ground{Name: "any." + name + "/is-the-anyutil-function", OK: false,
			Text: "package any's " + name + " is anyutil." + name + " (alias variable never reassigned, or a function that only forwards its parameters in order)", Detail: detail})
	}
	if pk == nil || pk.Types == nil {
		fail("*", "package any is not loaded")
		return nil
	}
	isTarget := func(e ast.Expr, name string) bool {
		sel, ok := ast.Unparen(e).(*ast.SelectorExpr)
		if !ok {
			return false
		}
		fn, ok := pk.TypesInfo.Uses[sel.Sel].(*types.Func)
		return ok && fn.Pkg() != nil && fn.Pkg().Path() == repoModule+"/anyutil" && fn.Name() == name && fn.Type().(*types.Signature).Recv() == nil
	}
	for _, name := range []string{"New", "MarshalFrom", "Unpack"} {
		obj := pk.Types.Scope().Lookup(name)
		switch o := obj.(type) {
		case nil:
			fail(name, "not declared")
		case *types.Var:
			okInit, assigned := false, ""
			for _, f := range pk.Syntax {
				ast.Inspect(f, func(n ast.Node) bool {
					switch x := n.(type) {
					case *ast.ValueSpec:
						for i, id := range x.Names {
							if pk.TypesInfo.Defs[id] == o && len(x.Values) == len(x.Names) && isTarget(x.Values[i], name) {
								okInit = true
							}
						}
					case *ast.AssignStmt:
						for _, l := range x.Lhs {
							if id, ok := ast.Unparen(l).(*ast.Ident); ok && pk.TypesInfo.Uses[id] == o {
								assigned = pk.Fset.Position(x.Pos()).String()
							}
						}
					case *ast.UnaryExpr:
						if id, ok := ast.Unparen(x.X).(*ast.Ident); ok && x.Op == token.AND && pk.TypesInfo.Uses[id] == o {
							assigned = "address taken at " + pk.Fset.Position(x.Pos()).String()
						}
					}
					return true
				})
			}
			if !okInit {
				fail(name, "the variable is not initialised with anyutil."+name)
			} else if assigned != "" {
				fail(name, "the variable is assigned again: "+assigned)
			} else {
				rep.Grounds = append(rep.Grounds, Ground{Name: "any." + name + "/is-the-anyutil-function", OK: true, Text: "var " + name + " = anyutil." + name + ", never reassigned"})
			}
		case *types.Func:
			fd := p.decls[o]
			detail := ""
			if fd == nil || fd.Body == nil || len(fd.Body.List) != 1 {
				detail = "the body is not a single return statement"
			} else if rs, ok := fd.Body.List[0].(*ast.ReturnStmt); !ok || len(rs.Results) != 1 {
				detail = "the body is not a single return of one call"
			} else if call, ok := rs.Results[0].(*ast.CallExpr); !ok || !isTarget(call.Fun, name) {
				detail = "returns " + types.ExprString(rs.Results[0]) + ", not a call of anyutil." + name
			} else {
				var params []string
				for _, fl := range fd.Type.Params.List {
					for _, id := range fl.Names {
						params = append(params, id.Name)
					}
				}
				var args []string
				for _, a := range call.Args {
					args = append(args, types.ExprString(a))
				}
				if strings.Join(params, ",") != strings.Join(args, ",") {
					detail = "forwards (" + strings.Join(args, ", ") + ") for parameters (" + strings.Join(params, ", ") + ")"
				}
			}
			if detail != "" {
				fail(name, detail)
			} else {
				rep.Grounds = append(rep.Grounds, Ground{Name: "any." + name + "/is-the-anyutil-function", OK: true, Text: "func " + name + " forwards its parameters to anyutil." + name})
			}
		default:
			fail(name, fmt.Sprintf("declared as %T", obj))
		}
	}
	rep.Programs = append(rep.Programs, "package any (any/alias.go): the three exported names")
	return nil
}

const rapidStringReplay = `package rapidproto

import (
	"fmt"
	"testing"
	"unicode/utf8"

	"google.golang.org/protobuf/proto"
	"google.golang.org/protobuf/types/known/wrapperspb"
)

func TestGovcReplay(t *testing.T) {
	gen := MessageGenerator(&wrapperspb.StringValue{}, GeneratorOptions{})
	for i := 0; i < 6000; i++ {
		m := gen.Example(i)
		if !utf8.ValidString(m.Value) {
			fmt.Printf("GOVC-REPLAY: VIOLATED seed %d: generated string %q is not valid UTF-8\n", i, m.Value)
			t.FailNow()
		}
		if _, err := proto.Marshal(m); err != nil {
			fmt.Printf("GOVC-REPLAY: VIOLATED seed %d: the reference marshaller rejects the generated message: %v\n", i, err)
			t.FailNow()
		}
	}
	fmt.Println("GOVC-REPLAY: HOLDS")
}
`
