package main

// Checks over the hand-written layer: every function whose contract names the property.

import "fmt"

func handPatterns() []string {
	return []string{"./runtime", "./support/timepb", "./anyutil", "./generator", "./cmd/protoc-gen-go-pulsar", "./rapidproto", "./features/fastreflection",
		"google.golang.org/protobuf/encoding/protowire"}
}

func loadHand() (*Program, error) {
	return loadProgram(repoDir, handPatterns()...)
}

func handCheck(prop string, assumptions []string) checkFn {
	return func(rep *Report) error {
		p, err := loadHand()
		if err != nil {
			return err
		}
		unitsForProperty(p, rep, prop)
		if len(rep.Units) == 0 {
			return fmt.Errorf("no contract names property %s (contract files missing? build tag verif)", prop)
		}
		rep.Trusted = append(rep.Trusted, globalTrusted...)
		rep.Assumptions = append(rep.Assumptions, assumptions...)
		rep.Programs = []string{"hand-written functions of /repo named in contracts_verif.go files with 'property " + prop + "'"}
		rep.Replayer = replayHand
		return nil
	}
}

func init() {
	checks["C15"] = handCheck("C15", []string{
		"bits.Len64(x) is modelled by its definition: the least n with x < 2^n",
		"Skip on group records (wire types 3/4): only safety, progress and termination are proved; equality with the recursive record length is not stated (bounded stand-in not built)",
	})
	checks["C16"] = handCheck("C16", []string{
		"protobuf-go is not re-verified: proto.MarshalOptions.Marshal, the registries, dynamicpb and anypb.UnmarshalTo have trusted contracts (listed); Unpack(Pack(m)) == m and the agreement of the two resolver paths rest on them",
		"a nil *anypb.Any is outside the input domain of Unpack (precondition)",
	})
	checks["C17"] = handCheck("C17", []string{
		"machine arithmetic is modelled exactly as mathematical integers with explicit wrap-around (mod 2^64 / 2^32)",
		"AddStd: agreement with Add is not proved (time.Time arithmetic is outside the supported subset); Add is proved against the mathematical instant t+d directly",
	})
}
