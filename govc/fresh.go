package main

// Fresh programs: the plugin is built from the working tree on every run and driven with CodeGeneratorRequests
// (no protoc needed); its output is written to a scratch module outside /repo and /verif and loaded like any package.

import (
	"bytes"
	"crypto/sha256"
	"fmt"
	"go/ast"
	"go/printer"
	"go/token"
	"os"
	"os/exec"
	"path/filepath"
	"sort"
	"strings"

	"golang.org/x/tools/go/packages"
	"google.golang.org/protobuf/proto"
	"google.golang.org/protobuf/reflect/protodesc"
	"google.golang.org/protobuf/reflect/protoreflect"
	"google.golang.org/protobuf/reflect/protoregistry"
	"google.golang.org/protobuf/types/descriptorpb"
	"google.golang.org/protobuf/types/pluginpb"

	_ "google.golang.org/protobuf/types/known/anypb"
	_ "google.golang.org/protobuf/types/known/durationpb"
	_ "google.golang.org/protobuf/types/known/fieldmaskpb"
	_ "google.golang.org/protobuf/types/known/timestamppb"
)

const freshModule = "freshgen"

// rawDescriptors extracts the FileDescriptorProtos embedded in generated Go files (file_*_rawDesc literals).
var rawDescPkg = map[string]string{} // proto file name -> Go package that embeds its descriptor

// rawDescBase: (package path, proto file name) -> the "file_…" prefix of that file's generated variables
var rawDescBase = map[string]string{}

func rawDescriptors(pkgs []*packages.Package) (map[string]*descriptorpb.FileDescriptorProto, error) {
	out := map[string]*descriptorpb.FileDescriptorProto{}
	for _, pk := range pkgs {
		for _, f := range pk.Syntax {
			for _, d := range f.Decls {
				gd, ok := d.(*ast.GenDecl)
				if !ok || gd.Tok != token.VAR {
					continue
				}
				for _, sp := range gd.Specs {
					vs := sp.(*ast.ValueSpec)
					if len(vs.Names) != 1 || len(vs.Values) != 1 || !strings.HasSuffix(vs.Names[0].Name, "_rawDesc") {
						continue
					}
					cl, ok := vs.Values[0].(*ast.CompositeLit)
					if !ok {
						continue
					}
					var b []byte
					for _, e := range cl.Elts {
						tv := pk.TypesInfo.Types[e]
						if tv.Value == nil {
							return nil, fmt.Errorf("%s: non-constant byte in %s", pk.PkgPath, vs.Names[0].Name)
						}
						var x uint64
						fmt.Sscan(tv.Value.ExactString(), &x)
						b = append(b, byte(x))
					}
					fd := &descriptorpb.FileDescriptorProto{}
					if err := proto.Unmarshal(b, fd); err != nil {
						return nil, fmt.Errorf("%s: %v", vs.Names[0].Name, err)
					}
					out[fd.GetName()] = fd
					rawDescPkg[fd.GetName()] = pk.PkgPath
					rawDescBase[pk.PkgPath+"\x00"+fd.GetName()] = strings.TrimSuffix(vs.Names[0].Name, "_rawDesc")
				}
			}
		}
	}
	return out, nil
}

type freshSet struct {
	files    []*descriptorpb.FileDescriptorProto // to generate
	deps     []*descriptorpb.FileDescriptorProto // additional proto_file entries (imports)
	mappings map[string]string                   // proto file -> Go import path
	label    string
}

func wktProto(name string) *descriptorpb.FileDescriptorProto {
	fd, err := protoregistry.GlobalFiles.FindFileByPath(name)
	if err != nil {
		return nil
	}
	return protodesc.ToFileDescriptorProto(fd)
}

func buildPlugin() (string, error) {
	out := filepath.Join(scratch(), "protoc-gen-go-pulsar")
	if _, err := os.Stat(out); err == nil {
		return out, nil
	}
	cmd := exec.Command("go", "build", "-o", out, "./cmd/protoc-gen-go-pulsar")
	cmd.Dir = repoDir
	cmd.Env = goEnv()
	if b, err := cmd.CombinedOutput(); err != nil {
		return "", fmt.Errorf("building the plugin from the working tree failed: %v\n%s", err, b)
	}
	return out, nil
}

// runPlugin sends one request and returns the generated files (name -> content) or the plugin's error string.
func runPlugin(plugin string, req *pluginpb.CodeGeneratorRequest) (map[string]string, string, error) {
	in, err := proto.Marshal(req)
	if err != nil {
		return nil, "", err
	}
	cmd := exec.Command(plugin)
	cmd.Stdin = bytes.NewReader(in)
	var stdout, stderr bytes.Buffer
	cmd.Stdout, cmd.Stderr = &stdout, &stderr
	// hermetic: no environment beyond PATH
	cmd.Env = []string{"PATH=" + os.Getenv("PATH")}
	if err := cmd.Run(); err != nil {
		return nil, "", fmt.Errorf("plugin crashed: %v\n%s", err, stderr.String())
	}
	resp := &pluginpb.CodeGeneratorResponse{}
	if err := proto.Unmarshal(stdout.Bytes(), resp); err != nil {
		return nil, "", fmt.Errorf("plugin response does not parse: %v", err)
	}
	if resp.Error != nil {
		return nil, resp.GetError(), nil
	}
	files := map[string]string{}
	for _, f := range resp.File {
		files[f.GetName()] = f.GetContent()
	}
	return files, "", nil
}

func topoFiles(all map[string]*descriptorpb.FileDescriptorProto, roots []string) []*descriptorpb.FileDescriptorProto {
	var out []*descriptorpb.FileDescriptorProto
	seen := map[string]bool{}
	var visit func(n string)
	visit = func(n string) {
		if seen[n] {
			return
		}
		seen[n] = true
		fd := all[n]
		if fd == nil {
			if fd = wktProto(n); fd == nil {
				return
			}
		}
		for _, d := range fd.Dependency {
			visit(d)
		}
		out = append(out, fd)
	}
	for _, r := range roots {
		visit(r)
	}
	return out
}

type freshResult struct {
	prog    *Program
	dir     string
	genOK   bool
	errText string
}

// generateFresh runs the working-tree plugin on the given files and loads the result as a program.
func generateFresh(all map[string]*descriptorpb.FileDescriptorProto, gen []string, mappings map[string]string, sub string) (*freshResult, error) {
	plugin, err := buildPlugin()
	if err != nil {
		return nil, err
	}
	sort.Strings(gen)
	var ms []string
	for _, k := range sortedKeys(mappings) {
		ms = append(ms, "M"+k+"="+mappings[k])
	}
	param := strings.Join(append([]string{"features=protoc+fast"}, ms...), ",")
	req := &pluginpb.CodeGeneratorRequest{FileToGenerate: gen, Parameter: proto.String(param), ProtoFile: topoFiles(all, gen)}
	files, perr, err := runPlugin(plugin, req)
	if err != nil {
		return nil, err
	}
	if perr != "" {
		return &freshResult{errText: perr}, nil
	}
	dir := filepath.Join(scratch(), "fresh-"+sub)
	os.MkdirAll(dir, 0o755)
	gomod := fmt.Sprintf("module %s\n\ngo 1.18\n\nrequire github.com/cosmos/cosmos-proto v0.0.0\n\nreplace github.com/cosmos/cosmos-proto => %s\n", freshModule, repoDir)
	os.WriteFile(filepath.Join(dir, "go.mod"), []byte(gomod), 0o644)
	if b, err := os.ReadFile(filepath.Join(repoDir, "go.sum")); err == nil {
		os.WriteFile(filepath.Join(dir, "go.sum"), b, 0o644)
	}
	for name, content := range files {
		rel := strings.TrimPrefix(name, freshModule+"/")
		p := filepath.Join(dir, rel)
		os.MkdirAll(filepath.Dir(p), 0o755)
		os.WriteFile(p, []byte(content), 0o644)
	}
	// go mod tidy is not available offline; requirements resolve through the replace and GOFLAGS=-mod=mod
	prog, err := loadProgram(dir, "./...")
	if err != nil {
		return &freshResult{dir: dir, genOK: true, errText: err.Error()}, nil
	}
	prog.modPrefix = append(prog.modPrefix, freshModule)
	return &freshResult{prog: prog, dir: dir, genOK: true}, nil
}

func closureHash(fset *token.FileSet, n ast.Node) string {
	var buf bytes.Buffer
	printer.Fprint(&buf, fset, n) // comments are not attached to the node: code only
	h := sha256.Sum256(buf.Bytes())
	return fmt.Sprintf("%x", h[:8])
}

var freshCache struct {
	done bool
	msgs []genMsg
	err  error
	info []string
}

// loadFreshTargets: (1) the six checked-in schemas regenerated by the working-tree plugin; (2) the matrix corpus.
// A regenerated message whose closures and methods are textually identical (code only) to the checked-in ones is
// not proved twice: it is the same program.
func loadFreshTargets(rep *Report) ([]genMsg, error) {
	if os.Getenv("GOVC_NOFRESH") != "" {
		rep.Notes = append(rep.Notes, "GOVC_NOFRESH set: regenerated code skipped")
		return nil, nil
	}
	checked, err := loadProgram(repoDir, append([]string{"."}, genPkgsCheckedIn...)...)
	if err != nil {
		return nil, err
	}
	all, err := rawDescriptors(checked.roots)
	if err != nil {
		return nil, err
	}
	var out []genMsg
	// (1) regenerated checked-in schemas
	mappings := map[string]string{}
	var gen []string
	for name, fd := range all {
		gp := fd.GetOptions().GetGoPackage()
		if strings.HasPrefix(gp, repoModule+"/testpb") || strings.HasPrefix(gp, repoModule+"/internal/testprotos") {
			gen = append(gen, name)
			gpp := strings.Split(gp, ";")[0]
			mappings[name] = freshModule + "/regen/" + gpp[strings.LastIndex(gpp, "/")+1:]
		}
	}
	for name := range all {
		if _, isGen := mappings[name]; !isGen {
			mappings[name] = rawDescPkg[name] // imported, not regenerated: the package that really holds it
		}
	}
	res, err := generateFresh(all, gen, mappings, "regen")
	if err != nil {
		return nil, err
	}
	if res.errText != "" {
		return nil, fmt.Errorf("regenerating the checked-in schemas failed: %s", res.errText)
	}
	if em, err := rawDescriptors(res.prog.roots); err == nil {
		lastFreshGrounds = append(lastFreshGrounds, embeddedDescriptorGrounds("regen", em, all, gen)...)
	}
	same, differ := 0, 0
	for _, pk := range res.prog.roots {
		orig := checked.pkg(pk.PkgPath[strings.LastIndex(pk.PkgPath, "/")+1:])
		for _, ms := range messageSchemas(pk) {
			identical := orig != nil
			if orig != nil {
				for _, cn := range []string{"size", "marshal", "unmarshal"} {
					a, b := findClosure(pk, ms.Name, cn), findClosure(orig, ms.Name, cn)
					if a == nil || b == nil || closureHash(pk.Fset, a) != closureHash(orig.Fset, b) {
						identical = false
					}
				}
				for _, mn := range reflMethods {
					a, b := findMethod(pk, "fastReflection_"+ms.Name, mn), findMethod(orig, "fastReflection_"+ms.Name, mn)
					if (a == nil) != (b == nil) || (a != nil && closureHash(pk.Fset, a) != closureHash(orig.Fset, b)) {
						identical = false
					}
				}
			}
			if identical {
				same++
				continue
			}
			differ++
			out = append(out, genMsg{res.prog, ms, "regenerated"})
		}
	}
	rep.Programs = append(rep.Programs, fmt.Sprintf("regenerated from the checked-in schemas by the working-tree plugin: %d messages identical (code) to the checked-in files and therefore covered by their proofs, %d differing and proved separately", same, differ))
	// (2) matrix corpus
	corpus := corpusFiles()
	call := map[string]*descriptorpb.FileDescriptorProto{}
	var cgen []string
	for _, fd := range corpus {
		call[fd.GetName()] = fd
		cgen = append(cgen, fd.GetName())
	}
	cres, err := generateFresh(call, cgen, nil, "corpus")
	if err != nil {
		return nil, err
	}
	if cres.errText != "" {
		return nil, fmt.Errorf("generating the corpus failed: %s", cres.errText)
	}
	if em, err := rawDescriptors(cres.prog.roots); err == nil {
		lastFreshGrounds = append(lastFreshGrounds, embeddedDescriptorGrounds("corpus", em, call, cgen)...)
	}
	n := 0
	for _, pk := range cres.prog.roots {
		for _, ms := range messageSchemas(pk) {
			out = append(out, genMsg{cres.prog, ms, "corpus"})
			n++
		}
	}
	rep.Programs = append(rep.Programs, fmt.Sprintf("corpus schemas generated by the working-tree plugin: %d files, %d messages", len(corpus), n))
	if only := os.Getenv("GOVC_ONLY_MSG"); only != "" {
		var f []genMsg
		for _, g := range out {
			if strings.Contains(","+only+",", ","+g.ms.Name+",") {
				f = append(f, g)
			}
		}
		out = f
	}
	return out, nil
}

var lastFreshGrounds []Ground

var reflMethods = []string{"Range", "Has", "Clear", "Get", "Set", "Mutable", "NewField", "WhichOneof", "GetUnknown", "SetUnknown", "IsValid", "New", "Interface", "Type", "Descriptor", "ProtoMethods"}

var _ = protoreflect.FullName("")
