package main

// The spec library: the formal wire format the contracts refer to (DESIGN.md Appendix A), as SMT-LIB definitions
// selected by the function's integer model, plus the contract-level functions that map onto them.

import (
	"fmt"
	"go/types"
	"math/big"
	"strings"
)

func (c *Ctx) preamble() string {
	// scripts of one unit are built by several goroutines: the cache is guarded (an unsynchronised string write
	// was read torn once and crashed the checker)
	c.preambleMu.Lock()
	defer c.preambleMu.Unlock()
	if c.preambleCache != "" {
		return c.preambleCache
	}
	var sb strings.Builder
	pow := func(n int) *big.Int { return new(big.Int).Lsh(big.NewInt(1), uint(n)) }
	switch c.mode {
	case "bv":
		l := "(_ bv0 64)"
		for n := 1; n <= 64; n++ {
			l = fmt.Sprintf("(ite (bvuge v (_ bv%s 64)) (_ bv%d 64) %s)", pow(n-1), n, l)
		}
		v := "(_ bv10 64)"
		for k := 9; k >= 1; k-- {
			v = fmt.Sprintf("(ite (bvult v (_ bv%s 64)) (_ bv%d 64) %s)", pow(7*k), k, v)
		}
		sb.WriteString("(define-fun len64 ((v (_ BitVec 64))) (_ BitVec 64) " + l + ")\n")
		sb.WriteString("(define-fun VarintLen ((v (_ BitVec 64))) (_ BitVec 64) " + v + ")\n")
		sb.WriteString("(define-fun ZigZag64 ((v (_ BitVec 64))) (_ BitVec 64) (bvxor (bvshl v (_ bv1 64)) (bvashr v (_ bv63 64))))\n")
		sb.WriteString("(define-fun ZigZag32 ((v (_ BitVec 32))) (_ BitVec 32) (bvxor (bvshl v (_ bv1 32)) (bvashr v (_ bv31 32))))\n")
		sb.WriteString(`(define-fun VarintByte ((v (_ BitVec 64)) (k (_ BitVec 64))) (_ BitVec 8)
  (let ((sh ((_ extract 7 0) (bvlshr v (bvmul k (_ bv7 64))))))
    (ite (bvult (bvadd k (_ bv1 64)) (VarintLen v)) (bvor (bvand sh #x7f) #x80) (bvand sh #x7f))))
`)

		{
			arr := "(Array (_ BitVec 64) (_ BitVec 8))"
			at := func(k int) string { return fmt.Sprintf("(select a (bvadd i (_ bv%d 64)))", k) }
			end := fmt.Sprintf("(bvadd i (_ bv%d 64))", 9)
			for k := 8; k >= 0; k-- {
				end = fmt.Sprintf("(ite (bvult %s #x80) (bvadd i (_ bv%d 64)) %s)", at(k), k, end)
			}
			sb.WriteString("(define-fun VarintEnd ((a " + arr + ") (i (_ BitVec 64))) (_ BitVec 64) " + end + ")\n")
			// value: sum over bytes up to and including the terminating one
			term := func(k int) string {
				return fmt.Sprintf("(bvshl ((_ zero_extend 56) (bvand %s #x7f)) (_ bv%d 64))", at(k), 7*k)
			}
			val := term(9)
			for k := 8; k >= 0; k-- {
				val = fmt.Sprintf("(bvor %s (ite (bvult %s #x80) (_ bv0 64) %s))", term(k), at(k), val)
			}
			sb.WriteString("(define-fun VarintVal ((a " + arr + ") (i (_ BitVec 64))) (_ BitVec 64) " + val + ")\n")
		}
	case "int":
		v, vi := "10", "10"
		for k := 9; k >= 1; k-- {
			v = fmt.Sprintf("(ite (bvult v (_ bv%s 64)) %d %s)", pow(7*k), k, v)
			vi = fmt.Sprintf("(ite (< e %s) %d %s)", pow(7*k), k, vi)
		}
		sb.WriteString("(define-fun VarintLen ((v (_ BitVec 64))) Int " + v + ")\n")
		sb.WriteString("(define-fun VarintLenI ((e Int)) Int (ite (< e 0) 10 " + vi + "))\n")
		sb.WriteString("(define-fun ZigZag64 ((v (_ BitVec 64))) (_ BitVec 64) (bvxor (bvshl v (_ bv1 64)) (bvashr v (_ bv63 64))))\n")
		sb.WriteString("(define-fun ZigZag32 ((v (_ BitVec 32))) (_ BitVec 32) (bvxor (bvshl v (_ bv1 32)) (bvashr v (_ bv31 32))))\n")
		// k-th byte of the minimal varint of v, k an Int in [0,10)
		sh := "((_ extract 7 0) v)"
		chain := sh
		for k := 9; k >= 1; k-- {
			chain = fmt.Sprintf("(ite (= k %d) ((_ extract 7 0) (bvlshr v (_ bv%d 64))) %s)", k, 7*k, chain)
		}
		sb.WriteString("(define-fun VarintByte ((v (_ BitVec 64)) (k Int)) (_ BitVec 8) (let ((sh " + chain + ")) (ite (< (+ k 1) (VarintLen v)) (bvor (bvand sh #x7f) #x80) (bvand sh #x7f))))\n")
		// Int-domain twin for lengths (k-th byte of the minimal varint of a non-negative Int e). It is kept uninterpreted:
		// obligations only need that equal arguments give equal bytes; its agreement with VarintByte on int2bv(e) is
		// the trusted arithmetic bridge of DESIGN.md §9.6 (int2bv is never emitted).
		sb.WriteString("(declare-fun VarintByteI (Int Int) (_ BitVec 8))\n")
		for _, w := range []int{8, 16, 32, 64} {
			sb.WriteString(fmt.Sprintf("(define-fun sbv2int%d ((x (_ BitVec %d))) Int (ite (bvslt x (_ bv0 %d)) (- (bv2nat x) %s) (bv2nat x)))\n", w, w, w, pow(w)))
		}
		sb.WriteString("(declare-fun SizeSpec (Int) Int)\n(assert (= (SizeSpec 0) 0))\n(assert (forall ((r Int)) (! (>= (SizeSpec r) 0) :pattern ((SizeSpec r)))))\n")
	case "math":
	}
	c.preambleCache = sb.String()
	return c.preambleCache
}

type specFn func(e *SpecEnv, args []Val) Val

var specFuncs map[string]specFn

func init() {
	specFuncs = map[string]specFn{
		"VarintLen": func(e *SpecEnv, a []Val) Val {
			c := e.c
			if l, ok := a[0].(specLit); ok {
				n := 1
				for k := 1; k <= 9; k++ {
					if l.V.Cmp(new(big.Int).Lsh(big.NewInt(1), uint(7*k))) >= 0 {
						n = k + 1
					}
				}
				return specLit{big.NewInt(int64(n))}
			}
			v := a[0].(Scalar)
			switch {
			case v.S.K == "i2b" || v.S.K == "int":
				return Scalar{e.c.sdef("vl", c.idx(), "(VarintLenI "+v.T+")"), c.idx()}
			case v.S.K == "bv" && v.S.W == 64:
				return Scalar{e.c.sdef("vl", c.idx(), "(VarintLen "+v.T+")"), c.idx()}
			case v.S.K == "bv":
				w := c.convertSort(v, Sort{K: "bv", W: 64, Sg: v.S.Sg})
				return Scalar{e.c.sdef("vl", c.idx(), "(VarintLen "+w.T+")"), c.idx()}
			}
			panic(unsupported{"VarintLen: bad argument sort"})
		},
		"VarintByte": func(e *SpecEnv, a []Val) Val {
			c := e.c
			v := a[0].(Scalar)
			k := c.adaptLit(a[1], c.idx()).(Scalar)
			b8 := Sort{K: "bv", W: 8}
			if v.S.K == "i2b" || v.S.K == "int" {
				return Scalar{e.c.sdef("vb", b8, "(VarintByteI "+v.T+" "+k.T+")"), b8}
			}
			return Scalar{e.c.sdef("vb", b8, "(VarintByte "+v.T+" "+k.T+")"), b8}
		},
		"ZigZag64": func(e *SpecEnv, a []Val) Val {
			v := a[0].(Scalar)
			return Scalar{e.c.sdef("zz", v.S, "(ZigZag64 "+v.T+")"), Sort{K: "bv", W: 64}}
		},
		"ZigZag32": func(e *SpecEnv, a []Val) Val {
			v := a[0].(Scalar)
			return Scalar{e.c.sdef("zz", v.S, "(ZigZag32 "+v.T+")"), Sort{K: "bv", W: 32}}
		},
		"Len64": func(e *SpecEnv, a []Val) Val {
			v := a[0].(Scalar)
			return Scalar{e.c.sdef("l64", e.c.idx(), "(len64 "+v.T+")"), e.c.idx()}
		},
		// fresh(p): p is a newly allocated object (distinct from every object reachable at entry)
		"fresh": func(e *SpecEnv, a []Val) Val {
			switch p := a[0].(type) {
			case PtrV:
				return Scalar{"(< " + p.Ref + " 0)", boolSort}
			}
			panic(unsupported{"fresh: not a pointer"})
		},
		// has(m, k): key k is present in map m
		"has": func(e *SpecEnv, a []Val) Val {
			m, ok := a[0].(MapV)
			if !ok {
				panic(unsupported{"has: not a map"})
			}
			e.c.declareFun("MapHas", "(Int Int) Bool")
			return Scalar{"(MapHas " + m.Id + " " + e.c.keyID(e.st, a[1]) + ")", boolSort}
		},
		// unixsec(t), unixnano(t): the instant a time.Time denotes, as whole seconds since the Unix epoch and the
		// nanoseconds within that second — uninterpreted observers of the (opaque) time.Time value; their meaning
		// comes from the trusted contracts of the functions that produce and consume time.Time values
		"unixsec": func(e *SpecEnv, a []Val) Val {
			return e.c.pureApply("spec:unixsec", a[:1], types.Typ[types.Int64], e.st)[0]
		},
		"unixnano": func(e *SpecEnv, a []Val) Val {
			return e.c.pureApply("spec:unixnano", a[:1], types.Typ[types.Int64], e.st)[0]
		},
		"sign": func(e *SpecEnv, a []Val) Val {
			v := a[0].(Scalar)
			is := Sort{K: "int", W: 64, Sg: true}
			if v.S.K != "int" {
				panic(unsupported{"sign: needs a mathematical integer"})
			}
			return Scalar{e.c.sdef("sgn", is, "(ite (< "+v.T+" 0) (- 1) (ite (> "+v.T+" 0) 1 0))"), is}
		},
		// VarintEnd(b, i): index of the last byte of the varint starting at b[i] (at most 10 bytes are inspected)
		"VarintEnd": func(e *SpecEnv, a []Val) Val {
			c := e.c
			b := a[0].(SliceV)
			i := c.adaptLit(a[1], c.idx()).(Scalar)
			// the result is an index of the slice b (relative to its offset), like every other index in a contract
			return Scalar{c.sdef("vend", c.idx(), c.subIdx("(VarintEnd "+c.sliceArr(e.st, b)+" "+c.addIdx(b.Off, i.T)+")", b.Off)), c.idx()}
		},
		// VarintVal(b, i): the 64-bit value decoded from the varint starting at b[i] (low 64 bits, exactly what the decoders compute)
		"VarintVal": func(e *SpecEnv, a []Val) Val {
			c := e.c
			b := a[0].(SliceV)
			i := c.adaptLit(a[1], c.idx()).(Scalar)
			s := Sort{K: "bv", W: 64}
			return Scalar{c.sdef("vval", s, "(VarintVal "+c.sliceArr(e.st, b)+" "+c.addIdx(b.Off, i.T)+")"), s}
		},
		"ite": func(e *SpecEnv, a []Val) Val {
			cnd := a[0].(Scalar)
			x, y := a[1], a[2]
			if l, ok := x.(specLit); ok {
				if ys, ok := y.(Scalar); ok {
					x = e.c.adaptLit(l, ys.S)
				} else {
					x = e.c.adaptLit(l, e.c.idx())
				}
			}
			xs := x.(Scalar)
			y = e.c.adaptLit(y, xs.S)
			return Scalar{"(ite " + cnd.T + " " + xs.T + " " + y.(Scalar).T + ")", xs.S}
		},
	}
}

// sdef: like def, but inside a kept quantifier no fresh constant may be introduced
func (c *Ctx) sdef(prefix string, s Sort, term string) string {
	if c.noDef {
		return term
	}
	return c.def(prefix, s, term)
}
