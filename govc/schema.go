package main

// Message schemas recovered from the generated Go structs (struct tags + Go types), never from name mangling or
// from the code under proof. This is what the emitted-code family contracts are instantiated from.

import (
	"go/ast"
	"go/types"
	"reflect"
	"sort"
	"strconv"
	"strings"

	"golang.org/x/tools/go/packages"
)

type FieldSchema struct {
	GoName    string
	ProtoName string
	Num       int
	Enc       string // varint | zigzag32 | zigzag64 | fixed32 | fixed64 | bytes
	Kind      string // bool int32 int64 uint32 uint64 sint32 sint64 fixed32 fixed64 sfixed32 sfixed64 float double string bytes enum message
	Rep       bool
	Packed    bool
	IsMap     bool
	Key, Val  *FieldSchema
	Oneof     *OneofSchema
	Wrapper   *types.Named // oneof wrapper struct type
	GoType    types.Type   // type of the Go struct field (for oneof members: of the wrapper's field)
	Msg       *types.Named // message kind: element type
	Order     int          // declaration order in the struct
}

type OneofSchema struct {
	GoName  string
	Name    string
	Members []*FieldSchema
	Iface   types.Type
	Order   int
}

type MsgSchema struct {
	Name   string
	Named  *types.Named
	Struct *types.Struct
	Pkg    *packages.Package
	Fields []*FieldSchema // all fields incl. oneof members, by struct order then member number
	Oneofs []*OneofSchema
}

func (f *FieldSchema) wireType() int {
	if f.Rep && f.Packed {
		return 2
	}
	switch f.Enc {
	case "varint", "zigzag32", "zigzag64":
		return 0
	case "fixed64":
		return 1
	case "bytes":
		return 2
	case "fixed32":
		return 5
	}
	return -1
}

func (f *FieldSchema) elemWireType() int {
	switch f.Enc {
	case "varint", "zigzag32", "zigzag64":
		return 0
	case "fixed64":
		return 1
	case "bytes":
		return 2
	case "fixed32":
		return 5
	}
	return -1
}

func tagBytes(num, wt int) []byte {
	x := uint64(num)<<3 | uint64(wt)
	var out []byte
	for x >= 0x80 {
		out = append(out, byte(x)|0x80)
		x >>= 7
	}
	return append(out, byte(x))
}

func (f *FieldSchema) tagLen() int     { return len(tagBytes(f.Num, f.wireType())) }
func (f *FieldSchema) elemTagLen() int { return len(tagBytes(f.Num, f.elemWireType())) }

func parsePBTag(v string, f *FieldSchema) bool {
	parts := strings.Split(v, ",")
	if len(parts) < 3 {
		return false
	}
	f.Enc = parts[0]
	f.Num, _ = strconv.Atoi(parts[1])
	for _, p := range parts[2:] {
		switch {
		case p == "rep":
			f.Rep = true
		case p == "packed":
			f.Packed = true
		case strings.HasPrefix(p, "name="):
			f.ProtoName = p[5:]
		}
	}
	return true
}

func kindOf(enc string, t types.Type) (string, *types.Named) {
	if p, ok := t.Underlying().(*types.Pointer); ok {
		if n, ok := p.Elem().(*types.Named); ok {
			return "message", n
		}
	}
	if sl, ok := t.Underlying().(*types.Slice); ok && isByte(sl.Elem()) {
		return "bytes", nil
	}
	b, ok := t.Underlying().(*types.Basic)
	if !ok {
		return "?", nil
	}
	_, named := t.(*types.Named)
	switch b.Kind() {
	case types.Bool:
		return "bool", nil
	case types.String:
		return "string", nil
	case types.Float32:
		return "float", nil
	case types.Float64:
		return "double", nil
	case types.Int32:
		if named {
			return "enum", nil
		}
		switch enc {
		case "zigzag32":
			return "sint32", nil
		case "fixed32":
			return "sfixed32", nil
		}
		return "int32", nil
	case types.Int64:
		switch enc {
		case "zigzag64":
			return "sint64", nil
		case "fixed64":
			return "sfixed64", nil
		}
		return "int64", nil
	case types.Uint32:
		if enc == "fixed32" {
			return "fixed32", nil
		}
		return "uint32", nil
	case types.Uint64:
		if enc == "fixed64" {
			return "fixed64", nil
		}
		return "uint64", nil
	}
	return "?", nil
}

func messageSchemas(pkg *packages.Package) []*MsgSchema {
	var out []*MsgSchema
	sc := pkg.Types.Scope()
	names := sc.Names()
	sort.Strings(names)
	for _, nm := range names {
		tn, ok := sc.Lookup(nm).(*types.TypeName)
		if !ok {
			continue
		}
		nt, ok := tn.Type().(*types.Named)
		if !ok {
			continue
		}
		st, ok := nt.Underlying().(*types.Struct)
		if !ok {
			continue
		}
		// a message struct has the unexported bookkeeping fields and a fastReflection_ sibling type
		if sc.Lookup("fastReflection_"+nm) == nil {
			continue
		}
		ms := &MsgSchema{Name: nm, Named: nt, Struct: st, Pkg: pkg}
		for i := 0; i < st.NumFields(); i++ {
			f := st.Field(i)
			tag := reflect.StructTag(st.Tag(i))
			if on, ok := tag.Lookup("protobuf_oneof"); ok {
				os := &OneofSchema{GoName: f.Name(), Name: on, Iface: f.Type(), Order: i}
				iface := f.Type().Underlying().(*types.Interface)
				for _, wn := range names {
					wt, ok := sc.Lookup(wn).(*types.TypeName)
					if !ok {
						continue
					}
					wnt, ok := wt.Type().(*types.Named)
					if !ok {
						continue
					}
					ws, ok := wnt.Underlying().(*types.Struct)
					if !ok || ws.NumFields() != 1 || !types.Implements(types.NewPointer(wnt), iface) {
						continue
					}
					v, ok := reflect.StructTag(ws.Tag(0)).Lookup("protobuf")
					if !ok || !strings.Contains(v, ",oneof") {
						continue
					}
					m := &FieldSchema{GoName: ws.Field(0).Name(), Oneof: os, Wrapper: wnt, GoType: ws.Field(0).Type(), Order: i}
					parsePBTag(v, m)
					m.Kind, m.Msg = kindOf(m.Enc, m.GoType)
					os.Members = append(os.Members, m)
				}
				sort.Slice(os.Members, func(a, b int) bool { return os.Members[a].Num < os.Members[b].Num })
				ms.Oneofs = append(ms.Oneofs, os)
				ms.Fields = append(ms.Fields, os.Members...)
				continue
			}
			v, ok := tag.Lookup("protobuf")
			if !ok {
				continue
			}
			fs := &FieldSchema{GoName: f.Name(), GoType: f.Type(), Order: i}
			parsePBTag(v, fs)
			if mt, isMap := f.Type().Underlying().(*types.Map); isMap {
				fs.IsMap = true
				fs.Kind = "map"
				k := &FieldSchema{GoName: "key", GoType: mt.Key()}
				parsePBTag(tag.Get("protobuf_key"), k)
				k.Kind, _ = kindOf(k.Enc, mt.Key())
				val := &FieldSchema{GoName: "value", GoType: mt.Elem()}
				parsePBTag(tag.Get("protobuf_val"), val)
				val.Kind, val.Msg = kindOf(val.Enc, mt.Elem())
				fs.Key, fs.Val = k, val
			} else if fs.Rep {
				et := f.Type().Underlying().(*types.Slice).Elem()
				fs.Kind, fs.Msg = kindOf(fs.Enc, et)
			} else {
				fs.Kind, fs.Msg = kindOf(fs.Enc, f.Type())
			}
			ms.Fields = append(ms.Fields, fs)
		}
		out = append(out, ms)
	}
	return out
}

func (m *MsgSchema) field(goName string) *FieldSchema {
	for _, f := range m.Fields {
		if f.GoName == goName && f.Oneof == nil {
			return f
		}
	}
	return nil
}

func (m *MsgSchema) oneof(goName string) *OneofSchema {
	for _, o := range m.Oneofs {
		if o.GoName == goName {
			return o
		}
	}
	return nil
}

// findClosure returns the size/marshal/unmarshal closure literal of fastReflection_<msg>.ProtoMethods
func findClosure(pkg *packages.Package, msg, name string) *ast.FuncLit {
	for _, f := range pkg.Syntax {
		for _, d := range f.Decls {
			fd, ok := d.(*ast.FuncDecl)
			if !ok || fd.Recv == nil || fd.Name.Name != "ProtoMethods" || fd.Body == nil {
				continue
			}
			if strings.TrimPrefix(types.ExprString(fd.Recv.List[0].Type), "*") != "fastReflection_"+msg {
				continue
			}
			for _, s := range fd.Body.List {
				if as, ok := s.(*ast.AssignStmt); ok && len(as.Lhs) == 1 && len(as.Rhs) == 1 {
					if id, ok := as.Lhs[0].(*ast.Ident); ok && id.Name == name {
						if lit, ok := as.Rhs[0].(*ast.FuncLit); ok {
							return lit
						}
					}
				}
			}
		}
	}
	return nil
}

func findMethod(pkg *packages.Package, recv, name string) *ast.FuncDecl {
	for _, f := range pkg.Syntax {
		for _, d := range f.Decls {
			fd, ok := d.(*ast.FuncDecl)
			if !ok || fd.Recv == nil || fd.Name.Name != name || fd.Body == nil {
				continue
			}
			if strings.TrimPrefix(types.ExprString(fd.Recv.List[0].Type), "*") == recv {
				return fd
			}
		}
	}
	return nil
}
