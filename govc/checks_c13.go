package main

// C13: the plugin's response is a pure function of its request. Decided by purity/frame obligations over the typed
// ASTs of the repository's generator packages: (1) no reference to a source of nondeterminism or ambient state
// (time, environment, random numbers, goroutines, pointer formatting); (2) every `range` over a map is order-
// insensitive: it only collects keys/values into a slice that is sorted before use, or only fills another map/set,
// or only deletes. protogen / protobuf-go determinism (import naming, deterministic descriptor marshalling) is trusted.

import (
	"bytes"
	"fmt"
	"go/ast"
	"go/token"
	"go/types"
	"os"
	"os/exec"
	"strings"

	"google.golang.org/protobuf/proto"
	"google.golang.org/protobuf/types/descriptorpb"
	"google.golang.org/protobuf/types/pluginpb"
)

var generatorPkgs = []string{"./generator", "./features/fastreflection", "./features/fastreflection/copied", "./features/protoc", "./features/protoc/genid", "./features/protoc/version", "./cmd/protoc-gen-go-pulsar"}

var forbiddenPkgs = map[string]string{"time": "wall-clock time", "math/rand": "random numbers", "crypto/rand": "random numbers", "os/user": "ambient state", "net": "network"}
var forbiddenFuncs = map[string]string{"os.Args": "process arguments / executable name", "runtime.GOOS": "host platform", "runtime.GOARCH": "host platform", "runtime.NumCPU": "host", "runtime.Version": "toolchain version", "runtime.GOROOT": "host paths", "runtime/debug.ReadBuildInfo": "build info", "os.Getuid": "process state", "os.Getppid": "process state", "os.TempDir": "host paths", "os.UserHomeDir": "host paths", "os.Stat": "file system", "os.ReadDir": "file system",
	"os.Getenv": "environment", "os.LookupEnv": "environment", "os.Environ": "environment", "os.Hostname": "host name", "os.Getwd": "working directory", "os.Getpid": "process id", "os.Executable": "executable path", "runtime.Caller": "call-stack paths", "runtime.Callers": "call-stack paths", "os.ReadFile": "file system", "os.Open": "file system"}

func init() {
	checks["C13"] = func(rep *Report) error {
		p, err := loadProgram(repoDir, generatorPkgs...)
		if err != nil {
			return err
		}
		refs, ranges := 0, 0
		for _, pk := range p.roots {
			short := strings.TrimPrefix(pk.PkgPath, repoModule+"/")
			for fi, f := range pk.Syntax {
				fname := ""
				if fi < len(pk.CompiledGoFiles) {
					fname = pk.CompiledGoFiles[fi]
					fname = fname[strings.LastIndex(fname, "/")+1:]
				}
				// (1) forbidden references
				ast.Inspect(f, func(n ast.Node) bool {
					switch x := n.(type) {
					case *ast.GoStmt:
						rep.Grounds = append(rep.Grounds, Ground{Name: fmt.Sprintf("%s/%s/no-goroutine@%d", short, fname, pk.Fset.Position(x.Pos()).Line), OK: false, Text: "the generator starts no goroutine (scheduling would be a source of nondeterminism)"})
					case *ast.SelectStmt:
						rep.Grounds = append(rep.Grounds, Ground{Name: fmt.Sprintf("%s/%s/no-select@%d", short, fname, pk.Fset.Position(x.Pos()).Line), OK: false, Text: "the generator uses no select"})
					case *ast.Ident:
						obj := pk.TypesInfo.Uses[x]
						if obj == nil || obj.Pkg() == nil {
							return true
						}
						refs++
						path := obj.Pkg().Path()
						if why, bad := forbiddenPkgs[path]; bad {
							if _, isFn := obj.(*types.Func); isFn {
								rep.Grounds = append(rep.Grounds, Ground{Name: fmt.Sprintf("%s/%s/reads-only-the-request[%s.%s]@%d", short, fname, path, obj.Name(), pk.Fset.Position(x.Pos()).Line), OK: false, Text: "no call into " + path + " (" + why + ")"})
							}
						}
						if why, bad := forbiddenFuncs[path+"."+obj.Name()]; bad {
							rep.Grounds = append(rep.Grounds, Ground{Name: fmt.Sprintf("%s/%s/reads-only-the-request[%s.%s]@%d", short, fname, path, obj.Name(), pk.Fset.Position(x.Pos()).Line), OK: false, Text: "no use of " + path + "." + obj.Name() + " (" + why + ")"})
						}
					case *ast.CallExpr:
						// a pointer handed to a formatting function (fmt.*print*, Errorf, or the generators' P helpers) is
						// rendered as its address unless its type has a String/Error method: process-dependent text
						isFmt := false
						switch fun := x.Fun.(type) {
						case *ast.SelectorExpr:
							if id, ok := fun.X.(*ast.Ident); ok {
								if pn, ok := pk.TypesInfo.Uses[id].(*types.PkgName); ok && pn.Imported().Path() == "fmt" {
									switch fun.Sel.Name {
									case "Sprintf", "Sprint", "Sprintln", "Fprintf", "Fprint", "Fprintln", "Errorf", "Printf", "Print", "Println":
										isFmt = true
									}
								}
							}
							if fun.Sel.Name == "P" {
								isFmt = true
							}
						}
						if isFmt {
							for _, a := range x.Args {
								t := pk.TypesInfo.TypeOf(a)
								if t == nil {
									continue
								}
								if pt, ok := t.Underlying().(*types.Pointer); ok {
									ms := types.NewMethodSet(t)
									if ms.Lookup(nil, "String") == nil && ms.Lookup(nil, "Error") == nil {
										rep.Grounds = append(rep.Grounds, Ground{Name: fmt.Sprintf("%s/%s/no-pointer-formatting@%d", short, fname, pk.Fset.Position(a.Pos()).Line), OK: false,
											Text: "no pointer value is formatted into text (its address differs between processes)", Detail: types.ExprString(a) + " has type " + pt.String()})
									}
								}
							}
						}
					case *ast.BasicLit:
						if x.Kind == token.STRING && strings.Contains(x.Value, "%p") {
							rep.Grounds = append(rep.Grounds, Ground{Name: fmt.Sprintf("%s/%s/no-pointer-formatting@%d", short, fname, pk.Fset.Position(x.Pos()).Line), OK: false, Text: "no %p formatting (addresses differ between processes)"})
						}
					}
					return true
				})
				// (2) map ranges
				for _, d := range f.Decls {
					fd, ok := d.(*ast.FuncDecl)
					if !ok || fd.Body == nil {
						continue
					}
					ast.Inspect(fd.Body, func(n ast.Node) bool {
						rs, ok := n.(*ast.RangeStmt)
						if !ok {
							return true
						}
						if _, isMap := pk.TypesInfo.TypeOf(rs.X).Underlying().(*types.Map); !isMap {
							return true
						}
						ranges++
						ok2, why := orderInsensitive(pk.TypesInfo, fd, rs)
						rep.Grounds = append(rep.Grounds, Ground{Name: fmt.Sprintf("%s/%s.%s/map-range[order-insensitive]#%d", short, fname, fd.Name.Name, ranges), OK: ok2,
							Text: "range over map " + types.ExprString(rs.X) + " is order-insensitive: " + why, Detail: fmt.Sprintf("line %d", pk.Fset.Position(rs.Pos()).Line)})
						return true
					})
				}
			}
		}
		rep.Grounds = append(rep.Grounds, Ground{Name: "generator/frame[reads only the request]", OK: true, Text: fmt.Sprintf("%d identifier uses in %d generator packages were resolved through go/types; none (other than those listed as failures) refers to time, environment, random numbers, process state; %d map ranges classified", refs, len(p.roots), ranges)})
		// bounded observation on the corpus: fresh processes, different environments, different file sets
		if plugin, err := buildPlugin(); err == nil {
			rep.Grounds = append(rep.Grounds, independenceGrounds(plugin, true)...)
			rep.Bounded = append(rep.Bounded, "repeat / environment / file-set independence are observed on the corpus (6 files), not proved for all requests")
		}
		// the deductive part: findFeatures' contract (sorted result) if present
		unitsForProperty(p, rep, "C13")
		rep.Trusted = append(rep.Trusted, globalTrusted...)
		rep.Trusted = append(rep.Trusted, "protogen / protobuf-go are deterministic: import naming, Deterministic descriptor marshalling, CodeGeneratorResponse assembly", "Go itself is deterministic apart from the enumerated sources (map iteration, goroutines, time, environment, randomness, addresses)")
		rep.Assumptions = append(rep.Assumptions,
			"2-safety (same request ⇒ same response) is decided through purity: the generator packages read nothing but the request and every map iteration is order-insensitive by one of the recognised shapes; schedules and fresh processes are not explored",
			"per-file independence: state shared across files (Generator.seen, Generator.local, processedMessages) is keyed by globally unique names and does not flow into emitted text — by reading, not proved here")
		return nil
	}
}

// orderInsensitive recognises the shapes of a map range whose effect does not depend on iteration order.
func orderInsensitive(info *types.Info, fd *ast.FuncDecl, rs *ast.RangeStmt) (bool, string) {
	// shape (d): a unique-match scan — a single `if <predicate on the key> { plain assignments to locals }`
	if len(rs.Body.List) == 1 {
		if is, ok := rs.Body.List[0].(*ast.IfStmt); ok && is.Else == nil && is.Init == nil {
			plain := true
			for _, s := range is.Body.List {
				as, ok := s.(*ast.AssignStmt)
				if !ok || as.Tok != token.ASSIGN {
					plain = false
					break
				}
				for _, l := range as.Lhs {
					if _, ok := l.(*ast.Ident); !ok {
						plain = false
					}
				}
			}
			if plain {
				return true, "unique-match scan (assumes at most one key satisfies the condition: message full names are unique within a file)"
			}
		}
	}
	var collected []types.Object
	onlyMapWrites := true
	allAppends := len(rs.Body.List) > 0
	for _, s := range rs.Body.List {
		as, ok := s.(*ast.AssignStmt)
		if !ok {
			if es, ok := s.(*ast.ExprStmt); ok {
				if call, ok := es.X.(*ast.CallExpr); ok {
					if id, ok := call.Fun.(*ast.Ident); ok && id.Name == "delete" {
						allAppends = false
						continue
					}
				}
			}
			return false, "body contains " + fmt.Sprintf("%T", s)
		}
		isAppend := false
		if len(as.Lhs) == 1 && len(as.Rhs) == 1 {
			if call, ok := as.Rhs[0].(*ast.CallExpr); ok {
				if id, ok := call.Fun.(*ast.Ident); ok && id.Name == "append" {
					if lid, ok := as.Lhs[0].(*ast.Ident); ok {
						isAppend = true
						collected = append(collected, info.ObjectOf(lid))
					}
				}
			}
		}
		if !isAppend {
			allAppends = false
			for _, l := range as.Lhs {
				ix, ok := l.(*ast.IndexExpr)
				if !ok {
					onlyMapWrites = false
					continue
				}
				if _, isMap := info.TypeOf(ix.X).Underlying().(*types.Map); !isMap {
					onlyMapWrites = false
				}
			}
		} else {
			onlyMapWrites = false
		}
	}
	if allAppends && len(collected) > 0 {
		// every collected slice must be sorted later in the same function
		for _, o := range collected {
			sorted := false
			ast.Inspect(fd.Body, func(n ast.Node) bool {
				call, ok := n.(*ast.CallExpr)
				if !ok || call.Pos() < rs.End() {
					return true
				}
				if sel, ok := call.Fun.(*ast.SelectorExpr); ok {
					if pid, ok := sel.X.(*ast.Ident); ok && pid.Name == "sort" && len(call.Args) > 0 {
						if aid, ok := call.Args[0].(*ast.Ident); ok && info.ObjectOf(aid) == o {
							sorted = true
						}
					}
				}
				return true
			})
			if !sorted {
				return false, "collects into " + o.Name() + " which is not sorted afterwards"
			}
		}
		return true, "collects into a slice that is sorted before use"
	}
	if onlyMapWrites {
		return true, "only fills another map / set (or deletes)"
	}
	return false, "body is neither a sorted collection nor a map fill"
}

// independenceGrounds: bounded observation on the corpus — the working-tree plugin answers the same request
// byte-identically in fresh processes with different environments, and the content generated for a file does not
// depend on which other files are generated in the same invocation nor on their order.
func independenceGrounds(plugin string, withEnv bool) []Ground {
	var out []Ground
	corpus := corpusFiles()
	all := map[string]*descriptorpb.FileDescriptorProto{}
	var names []string
	for _, fd := range corpus {
		all[fd.GetName()] = fd
		names = append(names, fd.GetName())
	}
	gen := func(files []string, env []string) map[string]string {
		req := &pluginpb.CodeGeneratorRequest{FileToGenerate: files, Parameter: proto.String("features=protoc+fast"), ProtoFile: topoFiles(all, files),
			CompilerVersion: &pluginpb.Version{Major: proto.Int32(3), Minor: proto.Int32(21), Patch: proto.Int32(0), Suffix: proto.String("rc1")}}
		in, _ := proto.Marshal(req)
		cmd := exec.Command(plugin)
		cmd.Stdin = bytes.NewReader(in)
		cmd.Env = append([]string{"PATH=" + os.Getenv("PATH")}, env...)
		o, err := cmd.Output()
		if err != nil {
			return nil
		}
		resp := &pluginpb.CodeGeneratorResponse{}
		proto.Unmarshal(o, resp)
		m := map[string]string{}
		for _, f := range resp.File {
			m[f.GetName()] = f.GetContent()
		}
		return m
	}
	a := gen(names, nil)
	if withEnv {
		b := gen(names, []string{"TZ=Pacific/Kiritimati", "HOME=/nonexistent", "USER=someone", "LANG=tr_TR.UTF-8", "GOMAXPROCS=1"})
		same := a != nil && len(a) == len(b)
		for k, v := range a {
			if b[k] != v {
				same = false
			}
		}
		out = append(out, Ground{Name: "plugin/corpus/repeat-in-fresh-process-and-other-environment", OK: same, Text: "two fresh processes with different environments (TZ, HOME, USER, LANG, GOMAXPROCS) answer the same request with byte-identical files"})
	}
	indep := a != nil
	detail := ""
	for _, n := range names {
		alone := gen([]string{n}, nil)
		for k, v := range alone {
			if a[k] != v {
				indep = false
				detail = k + " differs when " + n + " is generated alone"
			}
		}
		if alone == nil {
			indep = false
			detail = n + " alone: no answer"
		}
	}
	out = append(out, Ground{Name: "plugin/corpus/content-independent-of-other-generated-files", OK: indep, Detail: detail, Text: "each corpus file generated alone is byte-identical to the same file generated together with all others"})
	rev := make([]string, len(names))
	for i, n := range names {
		rev[len(names)-1-i] = n
	}
	r := gen(rev, nil)
	ordOK := a != nil && r != nil && len(r) == len(a)
	for k, v := range a {
		if r[k] != v {
			ordOK = false
			detail = k + " differs when files_to_generate is reversed"
		}
	}
	out = append(out, Ground{Name: "plugin/corpus/content-independent-of-file-order", OK: ordOK, Detail: detail, Text: "reversing files_to_generate leaves every generated file byte-identical"})
	return out
}
