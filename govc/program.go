package main

// Loading the real code (go/packages, build tag verif) and its contract files; proving a function against its contract.

import (
	"fmt"
	"go/ast"
	"go/types"
	"os"
	"path/filepath"
	"sort"
	"strings"

	"golang.org/x/tools/go/packages"
)

const repoModule = "github.com/cosmos/cosmos-proto"

type Program struct {
	dir       string
	roots     []*packages.Package
	all       []*packages.Package
	byPath    map[string]*packages.Package
	contracts *Contracts
	decls     map[*types.Func]*ast.FuncDecl
	modPrefix []string
}

func goEnv() []string {
	env := os.Environ()
	return append(env, "GOFLAGS=-mod=mod", "GOPROXY=off", "GOSUMDB=off", "GOTOOLCHAIN=local")
}

func loadProgram(dir string, patterns ...string) (*Program, error) {
	cfg := &packages.Config{
		Mode: packages.NeedName | packages.NeedFiles | packages.NeedCompiledGoFiles | packages.NeedSyntax | packages.NeedTypes | packages.NeedTypesInfo | packages.NeedImports | packages.NeedDeps | packages.NeedModule,
		Dir:  dir, Env: goEnv(), BuildFlags: []string{"-tags=verif"},
	}
	pkgs, err := packages.Load(cfg, patterns...)
	if err != nil {
		return nil, err
	}
	p := &Program{dir: dir, roots: pkgs, byPath: map[string]*packages.Package{}, decls: map[*types.Func]*ast.FuncDecl{}, contracts: &Contracts{Funcs: map[string]*FuncSpec{}}, modPrefix: []string{repoModule}}
	var errs []string
	packages.Visit(pkgs, nil, func(pk *packages.Package) {
		p.all = append(p.all, pk)
		p.byPath[pk.PkgPath] = pk
	})
	for _, pk := range pkgs {
		for _, e := range pk.Errors {
			errs = append(errs, e.Error())
		}
	}
	if len(errs) > 0 {
		return nil, fmt.Errorf("load errors: %s", strings.Join(errs, "; "))
	}
	sort.Slice(p.all, func(i, j int) bool { return p.all[i].PkgPath < p.all[j].PkgPath })
	for _, pk := range p.all {
		for i, f := range pk.Syntax {
			if i >= len(pk.CompiledGoFiles) {
				break
			}
			fn := pk.CompiledGoFiles[i]
			if filepath.Base(fn) != "contracts_verif.go" {
				continue
			}
			rel := fn
			if j := strings.Index(fn, "/repo/"); j >= 0 {
				rel = fn[j+6:]
			}
			if err := parseContracts(pk.PkgPath, rel, f.Comments, pk.Fset, p.contracts); err != nil {
				return nil, err
			}
		}
	}
	return p, nil
}

func (p *Program) pkg(suffix string) *packages.Package {
	for _, pk := range p.all {
		if pk.PkgPath == suffix || strings.HasSuffix(pk.PkgPath, "/"+suffix) {
			return pk
		}
	}
	return nil
}

func (p *Program) pkgOf(fn *types.Func) *packages.Package {
	if fn == nil || fn.Pkg() == nil {
		return nil
	}
	return p.byPath[fn.Pkg().Path()]
}

func (p *Program) inRepo(fn *types.Func) bool {
	if fn == nil || fn.Pkg() == nil {
		return false
	}
	for _, m := range p.modPrefix {
		if strings.HasPrefix(fn.Pkg().Path(), m) {
			return true
		}
	}
	return false
}

func (p *Program) funcDecl(fn *types.Func) *ast.FuncDecl {
	if fd, ok := p.decls[fn]; ok {
		return fd
	}
	pk := p.pkgOf(fn)
	if pk == nil || pk.TypesInfo == nil {
		return nil
	}
	for _, f := range pk.Syntax {
		for _, d := range f.Decls {
			if fd, ok := d.(*ast.FuncDecl); ok {
				if o, ok := pk.TypesInfo.Defs[fd.Name].(*types.Func); ok {
					p.decls[o] = fd
				}
			}
		}
	}
	return p.decls[fn]
}

// findFunc locates a function or method by contract name ("Sov", "Recv.Method") in a package.
func (p *Program) findFunc(pk *packages.Package, name string) (*ast.FuncDecl, *types.Func) {
	if i := strings.Index(name, "#"); i >= 0 {
		name = name[:i] // contract variant: Add#overflow is a second contract for Add
	}
	recv, meth := "", name
	if i := strings.Index(name, "."); i >= 0 {
		recv, meth = name[:i], name[i+1:]
	}
	for _, f := range pk.Syntax {
		for _, d := range f.Decls {
			fd, ok := d.(*ast.FuncDecl)
			if !ok || fd.Name.Name != meth {
				continue
			}
			if (fd.Recv == nil) != (recv == "") {
				continue
			}
			if fd.Recv != nil {
				rt := types.ExprString(fd.Recv.List[0].Type)
				rt = strings.TrimPrefix(rt, "*")
				if rt != recv {
					continue
				}
			}
			fn, _ := pk.TypesInfo.Defs[fd.Name].(*types.Func)
			return fd, fn
		}
	}
	return nil, nil
}

// ---------- proving a hand-written function against its contract ----------

type Unit struct {
	Name      string
	Spec      *FuncSpec
	Ctx       *Ctx
	File      string
	Skipped   string // non-empty: function could not be brought under contract (reason)
	Grounds   []Ground
	Functions []string
}

func (p *Program) verifyFunc(spec *FuncSpec) (u *Unit) {
	pk := p.byPath[spec.Pkg]
	short := spec.Pkg[strings.LastIndex(spec.Pkg, "/")+1:]
	u = &Unit{Name: short + "." + spec.Name, Spec: spec}
	if pk == nil {
		u.Skipped = "package not loaded: " + spec.Pkg
		return u
	}
	fd, _ := p.findFunc(pk, spec.Name)
	if fd == nil || fd.Body == nil {
		u.Skipped = "function not found: " + spec.Name
		return u
	}
	mode := spec.Mode
	if mode == "" {
		mode = "bv"
	}
	c := newCtx(p, pk, mode, u.Name)
	c.spec = spec
	c.fdecl = fd
	c.content = true
	c.ifaceNil = true
	u.Ctx = c
	u.File = c.pos(fd.Pos())
	defer func() {
		if r := recover(); r != nil {
			if us, ok := r.(unsupported); ok {
				u.Skipped = "outside the supported subset: " + us.msg
				return
			}
			panic(r)
		}
	}()
	st := newState()
	binds := map[string]Val{}
	bindParam := func(nm *ast.Ident) {
		obj := c.info.Defs[nm]
		if obj == nil {
			return
		}
		v := c.symbolic(st, nm.Name, obj.Type())
		if pv, ok := v.(PtrV); ok && pv.Struct() != nil {
			// force the entry heap components into existence before the entry snapshot
			c.loadStruct(st, pv)
		}
		st.env[obj] = v
		binds[nm.Name] = v
	}
	if fd.Recv != nil {
		for _, fl := range fd.Recv.List {
			for _, nm := range fl.Names {
				bindParam(nm)
			}
		}
	}
	for _, fl := range fd.Type.Params.List {
		for _, nm := range fl.Names {
			bindParam(nm)
		}
	}
	var resObjs []types.Object
	if fd.Type.Results != nil {
		for _, fl := range fd.Type.Results.List {
			n := len(fl.Names)
			if n == 0 {
				n = 1
			}
			for i := 0; i < n; i++ {
				c.resTypes = append(c.resTypes, c.info.TypeOf(fl.Type))
			}
			for _, nm := range fl.Names {
				o := c.info.Defs[nm]
				st.env[o] = c.zeroValue(o.Type())
				resObjs = append(resObjs, o)
			}
		}
	}
	c.curResults = resObjs
	entry := st.clone()
	c.entry = entry
	c.entryBinds = binds
	if h := unitHooks[u.Name]; h != nil {
		h(c)
	}
	env0 := &SpecEnv{c: c, st: entry, entry: entry, binds: binds, assume: true}
	for _, r := range spec.Requires {
		c.assumeSpec("true", r, env0)
	}
	{
		envE := &SpecEnv{c: c, st: entry, entry: entry, binds: binds}
		allowed := "false"
		for _, pw := range spec.PanicsWhen {
			allowed = or(allowed, c.specBool(pw, envE))
		}
		c.panicOK = c.defRaw("panic_allowed", "Bool", allowed)
	}
	// vacuity: the precondition (with type invariants) must be satisfiable
	c.addObl(Obl{Name: u.Name + "/cover[requires]", Kind: "cover", Guard: "true", Goal: "true", Expect: "sat", Text: "precondition is satisfiable"})
	fl := c.execBlock(fd.Body.List, st)
	for _, end := range fl.nexts() {
		r := &RetState{St: end, Pos: fd.Body.Rbrace}
		for _, o := range resObjs {
			r.Vals = append(r.Vals, end.env[o])
		}
		c.rets = append(c.rets, r)
	}
	// postconditions at every return point
	for i, r := range c.rets {
		b := map[string]Val{}
		for k, v := range binds {
			b[k] = v
		}
		for j, o := range resObjs {
			if j < len(r.Vals) {
				b[o.Name()] = r.Vals[j]
			}
		}
		env := &SpecEnv{c: c, st: r.St, entry: entry, binds: b, results: r.Vals}
		for _, en := range spec.Ensures {
			c.addObl(Obl{Name: fmt.Sprintf("%s/ensures[%s]@ret%d", u.Name, en.Label, i+1), Kind: "ensures", Guard: r.St.guard, Goal: c.specBool(en, env), Pos: c.pos(r.Pos), Text: "ensures " + en.Text})
		}
		// must-panic: a declared panic condition may not reach a normal return
		envE := &SpecEnv{c: c, st: entry, entry: entry, binds: binds}
		for _, pw := range spec.PanicsWhen {
			c.addObl(Obl{Name: fmt.Sprintf("%s/must-panic[%s]@ret%d", u.Name, pw.Label, i+1), Kind: "must-panic", Guard: r.St.guard, Goal: not(c.specBool(pw, envE)), Pos: c.pos(r.Pos), Text: "returns normally only when not (" + pw.Text + ")"})
		}
	}
	// panics: allowed only under a declared condition
	allowed := c.panicOK
	for i, pr := range c.panics {
		c.addObl(Obl{Name: fmt.Sprintf("%s/unreachable-panic#%d", u.Name, i+1), Kind: "unreachable-panic", Guard: pr.St.guard, Goal: allowed, Pos: c.pos(pr.Pos), Text: "panic(" + pr.Msg + ") only under a declared 'panics when' condition"})
	}
	if h := unitPosts[u.Name]; h != nil {
		h(c, u)
	}
	for _, callee := range spec.ResultOf {
		seen := false
		for _, cr := range c.callResults {
			if cr.Callee != callee || len(cr.Vals) == 0 {
				continue
			}
			seen = true
			for i, r := range c.rets {
				if len(r.Vals) == 0 {
					continue
				}
				g := c.defRaw("g", "Bool", and(r.St.guard, cr.Guard))
				c.addObl(Obl{Name: fmt.Sprintf("%s/returns-result-of[%s]@ret%d", u.Name, callee, i+1), Kind: "ensures", Guard: g, Goal: sameTerm(r.Vals[0], cr.Vals[0]), Pos: c.pos(r.Pos),
					Text: "on a path through the call of " + callee + " the function returns that call's result"})
			}
		}
		if !seen {
			c.addObl(Obl{Name: fmt.Sprintf("%s/returns-result-of[%s]/anchor", u.Name, callee), Kind: "ensures", Guard: "true", Goal: "false", Pos: u.File, Text: "the function calls " + callee})
		}
	}
	for _, a := range spec.Asserts {
		if !c.assertSeen[a] {
			c.addObl(Obl{Name: fmt.Sprintf("%s/assert[%s]/anchor", u.Name, a.Label), Kind: "assert", Guard: "true", Goal: "false", Pos: u.File, Text: "the statement `" + a.At + "` the assertion is attached to exists in the function"})
		}
	}
	if spec.NoSafety {
		var keep []*Obl
		for _, ob := range c.obls {
			kept := false
			for _, k := range spec.SafetyKeep {
				kept = kept || ob.Kind == "safe."+k
			}
			if kept || (!strings.HasPrefix(ob.Kind, "safe.") && ob.Kind != "unreachable-panic") {
				keep = append(keep, ob)
			}
		}
		c.obls = keep
	}
	// every return point is reachable under the contract's assumptions: a return whose path condition is unsatisfiable
	// would have all its postconditions proved from false (an inconsistent callee contract, a contradictory requires)
	unrolled := strings.Contains(u.Name, "#") // variants restrict the domain on purpose: some of their returns are dead
	for _, ls := range spec.Loops {
		if ls.Unroll > 0 {
			unrolled = true // an unrolled loop has returns that are dead in early iterations
		}
	}
	for i, r := range c.rets {
		if unrolled {
			break
		}
		c.addObl(Obl{Name: fmt.Sprintf("%s/reachable@ret%d", u.Name, i+1), Kind: "vacuity", Guard: r.St.guard, Goal: "true", Expect: "sat", Pos: c.pos(r.Pos), Text: "this return point is reachable (its postconditions are not proved vacuously)"})
	}
	// canary: some return point is reachable (a false postcondition must be refutable)
	if len(c.rets) > 0 {
		g := "false"
		for _, r := range c.rets {
			g = or(g, r.St.guard)
		}
		c.addObl(Obl{Name: u.Name + "/canary[ensures false]", Kind: "canary", Guard: g, Goal: "true", Expect: "sat", Text: "a return point is reachable (false postcondition is refuted)"})
	}
	return u
}

// per-unit extension points for property-specific ghost obligations (installed by check files)
var unitHooks = map[string]func(c *Ctx){}
var unitPosts = map[string]func(c *Ctx, u *Unit){}
