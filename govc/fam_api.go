package main

// C19: the plain Go API agrees with reflection and the descriptor tables are coherent with the schema.
//   getters:  Get<F>(x) == view(x).F for every state, zero value on a nil receiver  (Get(fd) == view(x).F is C08)
//   Reset:    every field unset afterwards
//   ground:   md_/fd_ initialisers look descriptors up by exactly the schema's names;
//             for fresh code, the embedded raw descriptor equals the request's file descriptor.

import (
	"fmt"
	"go/ast"
	"go/token"
	"go/types"
	"strconv"
	"strings"

	"google.golang.org/protobuf/proto"
	"google.golang.org/protobuf/types/descriptorpb"
)

func apiUnits(prog *Program, ms *MsgSchema) []*Unit {
	var out []*Unit
	for _, f := range ms.Fields {
		out = append(out, getterUnit(prog, ms, f))
	}
	out = append(out, resetUnit(prog, ms))
	return out
}

func (c *Ctx) zeroTerm(v Val) string {
	switch p := v.(type) {
	case Scalar:
		return "(= " + p.T + " " + c.zero(p.S) + ")"
	case SliceV:
		if p.IsStr {
			return "(= " + p.Len + " 0)"
		}
		return and("(= "+p.Len+" 0)", p.Nil)
	case ListV:
		return and("(= "+p.Len+" 0)", p.Nil)
	case MapV:
		return and("(= "+p.Len+" 0)", p.Nil)
	case PtrV:
		return "(= " + p.Ref + " 0)"
	case IfaceV:
		return "(= " + p.Tag + " 0)"
	case ErrV:
		return "(= " + p.T + " 0)"
	}
	return "true"
}

func getterUnit(prog *Program, ms *MsgSchema, f *FieldSchema) (u *Unit) {
	pkg := ms.Pkg
	name := "Get" + f.GoName
	u = &Unit{Name: shortPkg(pkg.PkgPath) + "." + ms.Name + "." + name}
	fd := findMethod(pkg, ms.Name, name)
	if fd == nil {
		u.Skipped = "getter not found"
		return u
	}
	c := newCtx(prog, pkg, "int", u.Name)
	c.tag = map[string]string{"message": ms.Name, "method": name, "package": pkg.PkgPath}
	u.Ctx = c
	u.File = c.pos(fd.Pos())
	defer func() {
		if r := recover(); r != nil {
			if us, ok := r.(unsupported); ok {
				u.Skipped = "outside the supported subset: " + us.msg
				return
			}
			panic(r)
		}
	}()
	st := newState()
	xref := c.freshRaw("x", "Int")
	c.assume("(>= " + xref + " 0)")
	x := PtrV{Ref: xref, Named: ms.Named}
	st.env[c.info.Defs[fd.Recv.List[0].Names[0]]] = x
	c.resTypes = []types.Type{c.info.TypeOf(fd.Type.Results.List[0].Type)}
	// view before
	var fieldVal Val
	var selected string
	if f.Oneof != nil {
		iv := c.loadField(st, x, f.Oneof.GoName).(IfaceV)
		st.guard = c.defRaw("g", "Bool", and(st.guard, implies(not("(= "+iv.Tag+" 0)"), not("(= "+iv.Ref+" 0)"))))
		fieldVal = c.loadField(st, PtrV{Ref: iv.Ref, Named: f.Wrapper}, f.GoName)
		selected = fmt.Sprintf("(= %s %d)", iv.Tag, c.typeTag(f.Wrapper))
	} else {
		fieldVal = c.loadField(st, x, f.GoName)
	}
	c.entry = st.clone()
	// sibling getters (GetONEOF) are inlined
	c.callHook = func(c *Ctx, call *ast.CallExpr, st *State) ([]Val, bool) {
		if fn := c.calleeFunc(call); fn != nil && c.prog.inRepo(fn) && strings.HasPrefix(fn.Name(), "Get") {
			if d := c.prog.funcDecl(fn); d != nil && d.Body != nil {
				return c.inlineDecl(d, fn, call, st), true
			}
		}
		return nil, false
	}
	c.addObl(Obl{Name: u.Name + "/cover[entry]", Kind: "cover", Guard: st.guard, Goal: "true", Expect: "sat", Text: "entry assumptions are satisfiable"})
	fl := c.execBlock(fd.Body.List, st)
	for _, end := range fl.nexts() {
		c.rets = append(c.rets, &RetState{St: end, Pos: fd.Body.Rbrace})
	}
	for i, r := range c.rets {
		if len(r.Vals) != 1 {
			continue
		}
		res := r.Vals[0]
		eq := sameTerm(fieldVal, res)
		if sv, ok := res.(SliceV); ok {
			if fv, ok := fieldVal.(SliceV); ok {
				eq = and("(= "+sv.Len+" "+fv.Len+")", "(= "+c.sliceArr(r.St, sv)+" "+c.sliceArr(c.entry, fv)+")")
			}
		}
		want := eq
		if f.Oneof != nil {
			want = fmt.Sprintf("(ite %s %s %s)", selected, eq, c.zeroTerm(res))
		}
		goal := fmt.Sprintf("(ite (= %s 0) %s %s)", xref, c.zeroTerm(res), want)
		c.addObl(Obl{Name: fmt.Sprintf("%s/ensures[getter == field view]@ret%d", u.Name, i+1), Kind: "ensures", Guard: r.St.guard, Goal: goal, Pos: c.pos(r.Pos), Text: name + "() returns the field's value (zero value for a nil receiver or a non-selected oneof member) — the same value Get(fd) returns"})
	}
	n := 0
	for _, s := range c.stores {
		if strings.HasPrefix(s.Key, "fld:") {
			n++
		}
	}
	u.Grounds = append(u.Grounds, Ground{Name: u.Name + "/frame[no store]", OK: n == 0, Text: "getter performs no store"})
	return u
}

func resetUnit(prog *Program, ms *MsgSchema) (u *Unit) {
	pkg := ms.Pkg
	u = &Unit{Name: shortPkg(pkg.PkgPath) + "." + ms.Name + ".Reset"}
	fd := findMethod(pkg, ms.Name, "Reset")
	if fd == nil {
		u.Skipped = "Reset not found"
		return u
	}
	c := newCtx(prog, pkg, "int", u.Name)
	c.tag = map[string]string{"message": ms.Name, "method": "Reset", "package": pkg.PkgPath}
	u.Ctx = c
	u.File = c.pos(fd.Pos())
	defer func() {
		if r := recover(); r != nil {
			if us, ok := r.(unsupported); ok {
				u.Skipped = "outside the supported subset: " + us.msg
				return
			}
			panic(r)
		}
	}()
	st := newState()
	xref := c.freshRaw("x", "Int")
	c.assume("(> " + xref + " 0)")
	x := PtrV{Ref: xref, Named: ms.Named}
	st.env[c.info.Defs[fd.Recv.List[0].Names[0]]] = x
	c.loadStruct(st, x)
	c.entry = st.clone()
	c.callHook = func(c *Ctx, call *ast.CallExpr, st *State) ([]Val, bool) {
		// protoimpl bookkeeping (MessageStateOf / StoreMessageInfo) does not touch message fields
		if fn := c.calleeFunc(call); fn != nil && fn.Pkg() != nil && strings.Contains(fn.Pkg().Path(), "google.golang.org/protobuf") {
			for _, a := range call.Args {
				c.evalForEffects(a, st)
			}
			t := c.info.TypeOf(call)
			if t == nil || t.String() == "()" {
				return nil, true
			}
			if tup, ok := t.(*types.Tuple); ok && tup.Len() == 0 {
				return nil, true
			}
			return []Val{c.symbolic(st, "pi", t)}, true
		}
		return nil, false
	}
	c.addObl(Obl{Name: u.Name + "/cover[entry]", Kind: "cover", Guard: st.guard, Goal: "true", Expect: "sat", Text: "entry assumptions are satisfiable"})
	fl := c.execBlock(fd.Body.List, st)
	end := c.one(fl)
	if end == nil {
		u.Skipped = "Reset has no normal end"
		return u
	}
	names := map[string]bool{"unknownFields": true}
	for _, f := range ms.Fields {
		if f.Oneof != nil {
			names[f.Oneof.GoName] = true
		} else {
			names[f.GoName] = true
		}
	}
	for _, g := range sortedKeys(names) {
		v := c.loadField(end, x, g)
		c.addObl(Obl{Name: fmt.Sprintf("%s/ensures[%s unset]", u.Name, g), Kind: "ensures", Guard: end.guard, Goal: c.zeroTerm(v), Pos: c.pos(fd.Pos()), Text: "after Reset the field " + g + " holds its zero value (Has false, unknown fields empty)"})
	}
	return u
}

// ---------- ground checks on the descriptor tables ----------

func strLit(e ast.Expr) (string, bool) {
	bl, ok := e.(*ast.BasicLit)
	if !ok || bl.Kind != token.STRING {
		return "", false
	}
	s, err := strconv.Unquote(bl.Value)
	return s, err == nil
}

// byNameChain returns the ByName literals of X.Messages().ByName("A").Messages().ByName("B")… / X.Fields().ByName("f") and the root identifier
func byNameChain(e ast.Expr) (root string, coll []string, names []string) {
	for {
		call, ok := e.(*ast.CallExpr)
		if !ok {
			break
		}
		sel, ok := call.Fun.(*ast.SelectorExpr)
		if !ok || sel.Sel.Name != "ByName" || len(call.Args) != 1 {
			break
		}
		lit, ok := strLit(call.Args[0])
		if !ok {
			break
		}
		inner, ok := sel.X.(*ast.CallExpr)
		if !ok {
			break
		}
		isel, ok := inner.Fun.(*ast.SelectorExpr)
		if !ok {
			break
		}
		names = append([]string{lit}, names...)
		coll = append([]string{isel.Sel.Name}, coll...)
		e = isel.X
	}
	if id, ok := e.(*ast.Ident); ok {
		root = id.Name
	}
	return
}

func descriptorTableGrounds(ms *MsgSchema, full, pkgName string) []Ground {
	pkg := ms.Pkg
	prefix := shortPkg(pkg.PkgPath) + "." + ms.Name + ".init"
	assigns := map[string]ast.Expr{}
	for _, f := range pkg.Syntax {
		for _, d := range f.Decls {
			fd, ok := d.(*ast.FuncDecl)
			if !ok || fd.Name.Name != "init" || fd.Body == nil {
				continue
			}
			for _, s := range fd.Body.List {
				if as, ok := s.(*ast.AssignStmt); ok && len(as.Lhs) == 1 && len(as.Rhs) == 1 {
					if id, ok := as.Lhs[0].(*ast.Ident); ok {
						assigns[id.Name] = as.Rhs[0]
					}
				}
			}
		}
	}
	var out []Ground
	// md_<M> = File.Messages().ByName(p1).Messages().ByName(p2)…  must spell the message's full name (without package)
	rel := strings.TrimPrefix(full, pkgName)
	rel = strings.TrimPrefix(rel, ".")
	md := "md_" + ms.Name
	if e, ok := assigns[md]; ok {
		_, coll, names := byNameChain(e)
		okc := strings.Join(names, ".") == rel
		for _, cn := range coll {
			if cn != "Messages" {
				okc = false
			}
		}
		out = append(out, Ground{Name: prefix + "/" + md + "/looks-up-own-full-name", OK: okc, Text: md + " is looked up by the message's own name path " + rel, Detail: strings.Join(names, ".")})
	} else {
		out = append(out, Ground{Name: prefix + "/" + md + "/assigned", OK: false, Text: md + " is initialised in init()"})
	}
	for _, f := range ms.Fields {
		v := "fd_" + ms.Name + "_" + f.ProtoName
		e, ok := assigns[v]
		if !ok {
			out = append(out, Ground{Name: prefix + "/" + v + "/assigned", OK: false, Text: v + " is initialised in init()"})
			continue
		}
		root, coll, names := byNameChain(e)
		okf := root == md && len(names) == 1 && names[0] == f.ProtoName && coll[0] == "Fields"
		out = append(out, Ground{Name: prefix + "/" + v + "/looks-up-own-name", OK: okf, Text: v + " == " + md + ".Fields().ByName(\"" + f.ProtoName + "\")", Detail: root + " " + strings.Join(names, ".")})
	}
	return out
}

// embeddedDescriptorGrounds: for fresh code, the raw descriptor embedded in the generated package equals the request
func embeddedDescriptorGrounds(label string, emitted, request map[string]*descriptorpb.FileDescriptorProto, files []string) []Ground {
	var out []Ground
	for _, name := range files {
		want := request[name]
		got := emitted[name]
		ok := want != nil && got != nil
		if ok {
			w := proto.Clone(want).(*descriptorpb.FileDescriptorProto)
			w.SourceCodeInfo = nil
			g := proto.Clone(got).(*descriptorpb.FileDescriptorProto)
			g.SourceCodeInfo = nil
			ok = proto.Equal(w, g)
		}
		out = append(out, Ground{Name: label + "/" + name + "/embedded-descriptor-equals-request", OK: ok, Text: "the file descriptor registered by the generated package equals the schema given to the generator (custom options included; source info excluded)"})
	}
	return out
}
