package main

// C19: the plain Go API agrees with reflection and the descriptor tables are coherent with the schema.
//   getters:  Get<F>(x) == view(x).F for every state, zero value on a nil receiver  (Get(fd) == view(x).F is C08)
//   Reset:    every field unset afterwards
//   ground:   md_/fd_ initialisers look descriptors up by exactly the schema's names;
//             for fresh code, the embedded raw descriptor equals the request's file descriptor.

import (
	"fmt"
	"go/ast"
	"go/constant"
	"go/token"
	"go/types"
	"reflect"
	"regexp"
	"sort"
	"strconv"
	"strings"

	"golang.org/x/tools/go/packages"
	"google.golang.org/protobuf/proto"
	"google.golang.org/protobuf/types/descriptorpb"
)

func apiUnits(prog *Program, ms *MsgSchema) []*Unit {
	var out []*Unit
	for _, f := range ms.Fields {
		out = append(out, getterUnit(prog, ms, f))
	}
	out = append(out, resetUnit(prog, ms))
	return out
}

func (c *Ctx) zeroTerm(v Val) string {
	switch p := v.(type) {
	case Scalar:
		return "(= " + p.T + " " + c.zero(p.S) + ")"
	case SliceV:
		if p.IsStr {
			return "(= " + p.Len + " 0)"
		}
		return and("(= "+p.Len+" 0)", p.Nil)
	case ListV:
		return and("(= "+p.Len+" 0)", p.Nil)
	case MapV:
		return and("(= "+p.Len+" 0)", p.Nil)
	case PtrV:
		return "(= " + p.Ref + " 0)"
	case IfaceV:
		return "(= " + p.Tag + " 0)"
	case ErrV:
		return "(= " + p.T + " 0)"
	}
	return "true"
}

func getterUnit(prog *Program, ms *MsgSchema, f *FieldSchema) (u *Unit) {
	pkg := ms.Pkg
	name := "Get" + f.GoName
	u = &Unit{Name: shortPkg(pkg.PkgPath) + "." + ms.Name + "." + name}
	fd := findMethod(pkg, ms.Name, name)
	if fd == nil {
		u.Skipped = "getter not found"
		return u
	}
	c := newCtx(prog, pkg, "int", u.Name)
	c.tag = map[string]string{"message": ms.Name, "method": name, "package": pkg.PkgPath}
	u.Ctx = c
	u.File = c.pos(fd.Pos())
	defer func() {
		if r := recover(); r != nil {
			if us, ok := r.(unsupported); ok {
				u.Skipped = "outside the supported subset: " + us.msg
				return
			}
			panic(r)
		}
	}()
	st := newState()
	xref := c.freshRaw("x", "Int")
	c.assume("(>= " + xref + " 0)")
	x := PtrV{Ref: xref, Named: ms.Named}
	st.env[c.info.Defs[fd.Recv.List[0].Names[0]]] = x
	c.resTypes = []types.Type{c.info.TypeOf(fd.Type.Results.List[0].Type)}
	// view before
	var fieldVal Val
	var selected string
	if f.Oneof != nil {
		iv := c.loadField(st, x, f.Oneof.GoName).(IfaceV)
		st.guard = c.defRaw("g", "Bool", and(st.guard, implies(not("(= "+iv.Tag+" 0)"), not("(= "+iv.Ref+" 0)"))))
		fieldVal = c.loadField(st, PtrV{Ref: iv.Ref, Named: f.Wrapper}, f.GoName)
		selected = fmt.Sprintf("(= %s %d)", iv.Tag, c.typeTag(f.Wrapper))
	} else {
		fieldVal = c.loadField(st, x, f.GoName)
	}
	c.entry = st.clone()
	// sibling getters (GetONEOF) are inlined
	c.callHook = func(c *Ctx, call *ast.CallExpr, st *State) ([]Val, bool) {
		if fn := c.calleeFunc(call); fn != nil && c.prog.inRepo(fn) && strings.HasPrefix(fn.Name(), "Get") {
			if d := c.prog.funcDecl(fn); d != nil && d.Body != nil {
				return c.inlineDecl(d, fn, call, st), true
			}
		}
		return nil, false
	}
	c.addObl(Obl{Name: u.Name + "/cover[entry]", Kind: "cover", Guard: st.guard, Goal: "true", Expect: "sat", Text: "entry assumptions are satisfiable"})
	fl := c.execBlock(fd.Body.List, st)
	for _, end := range fl.nexts() {
		c.rets = append(c.rets, &RetState{St: end, Pos: fd.Body.Rbrace})
	}
	for i, r := range c.rets {
		if len(r.Vals) != 1 {
			continue
		}
		res := r.Vals[0]
		eq := sameTerm(fieldVal, res)
		if sv, ok := res.(SliceV); ok {
			if fv, ok := fieldVal.(SliceV); ok {
				eq = and("(= "+sv.Len+" "+fv.Len+")", "(= "+c.sliceArr(r.St, sv)+" "+c.sliceArr(c.entry, fv)+")")
			}
		}
		want := eq
		if f.Oneof != nil {
			want = fmt.Sprintf("(ite %s %s %s)", selected, eq, c.zeroTerm(res))
		}
		goal := fmt.Sprintf("(ite (= %s 0) %s %s)", xref, c.zeroTerm(res), want)
		c.addObl(Obl{Name: fmt.Sprintf("%s/ensures[getter == field view]@ret%d", u.Name, i+1), Kind: "ensures", Guard: r.St.guard, Goal: goal, Pos: c.pos(r.Pos), Text: name + "() returns the field's value (zero value for a nil receiver or a non-selected oneof member) — the same value Get(fd) returns"})
	}
	n := 0
	for _, s := range c.stores {
		if strings.HasPrefix(s.Key, "fld:") {
			n++
		}
	}
	u.Grounds = append(u.Grounds, Ground{Name: u.Name + "/frame[no store]", OK: n == 0, Text: "getter performs no store"})
	return u
}

func resetUnit(prog *Program, ms *MsgSchema) (u *Unit) {
	pkg := ms.Pkg
	u = &Unit{Name: shortPkg(pkg.PkgPath) + "." + ms.Name + ".Reset"}
	fd := findMethod(pkg, ms.Name, "Reset")
	if fd == nil {
		u.Skipped = "Reset not found"
		return u
	}
	c := newCtx(prog, pkg, "int", u.Name)
	c.tag = map[string]string{"message": ms.Name, "method": "Reset", "package": pkg.PkgPath}
	u.Ctx = c
	u.File = c.pos(fd.Pos())
	defer func() {
		if r := recover(); r != nil {
			if us, ok := r.(unsupported); ok {
				u.Skipped = "outside the supported subset: " + us.msg
				return
			}
			panic(r)
		}
	}()
	st := newState()
	xref := c.freshRaw("x", "Int")
	c.assume("(> " + xref + " 0)")
	x := PtrV{Ref: xref, Named: ms.Named}
	st.env[c.info.Defs[fd.Recv.List[0].Names[0]]] = x
	c.loadStruct(st, x)
	c.entry = st.clone()
	c.callHook = func(c *Ctx, call *ast.CallExpr, st *State) ([]Val, bool) {
		// protoimpl bookkeeping (MessageStateOf / StoreMessageInfo) does not touch message fields
		if fn := c.calleeFunc(call); fn != nil && fn.Pkg() != nil && strings.Contains(fn.Pkg().Path(), "google.golang.org/protobuf") {
			for _, a := range call.Args {
				c.evalForEffects(a, st)
			}
			t := c.info.TypeOf(call)
			if t == nil || t.String() == "()" {
				return nil, true
			}
			if tup, ok := t.(*types.Tuple); ok && tup.Len() == 0 {
				return nil, true
			}
			return []Val{c.symbolic(st, "pi", t)}, true
		}
		return nil, false
	}
	c.addObl(Obl{Name: u.Name + "/cover[entry]", Kind: "cover", Guard: st.guard, Goal: "true", Expect: "sat", Text: "entry assumptions are satisfiable"})
	fl := c.execBlock(fd.Body.List, st)
	end := c.one(fl)
	if end == nil {
		u.Skipped = "Reset has no normal end"
		return u
	}
	names := map[string]bool{"unknownFields": true}
	for _, f := range ms.Fields {
		if f.Oneof != nil {
			names[f.Oneof.GoName] = true
		} else {
			names[f.GoName] = true
		}
	}
	for _, g := range sortedKeys(names) {
		v := c.loadField(end, x, g)
		c.addObl(Obl{Name: fmt.Sprintf("%s/ensures[%s unset]", u.Name, g), Kind: "ensures", Guard: end.guard, Goal: c.zeroTerm(v), Pos: c.pos(fd.Pos()), Text: "after Reset the field " + g + " holds its zero value (Has false, unknown fields empty)"})
	}
	return u
}

// ---------- ground checks on the descriptor tables ----------

func strLit(e ast.Expr) (string, bool) {
	bl, ok := e.(*ast.BasicLit)
	if !ok || bl.Kind != token.STRING {
		return "", false
	}
	s, err := strconv.Unquote(bl.Value)
	return s, err == nil
}

// byNameChain returns the ByName literals of X.Messages().ByName("A").Messages().ByName("B")… / X.Fields().ByName("f") and the root identifier
func byNameChain(e ast.Expr) (root string, coll []string, names []string) {
	for {
		call, ok := e.(*ast.CallExpr)
		if !ok {
			break
		}
		sel, ok := call.Fun.(*ast.SelectorExpr)
		if !ok || sel.Sel.Name != "ByName" || len(call.Args) != 1 {
			break
		}
		lit, ok := strLit(call.Args[0])
		if !ok {
			break
		}
		inner, ok := sel.X.(*ast.CallExpr)
		if !ok {
			break
		}
		isel, ok := inner.Fun.(*ast.SelectorExpr)
		if !ok {
			break
		}
		names = append([]string{lit}, names...)
		coll = append([]string{isel.Sel.Name}, coll...)
		e = isel.X
	}
	if id, ok := e.(*ast.Ident); ok {
		root = id.Name
	}
	return
}

func descriptorTableGrounds(ms *MsgSchema, full, pkgName string) []Ground {
	pkg := ms.Pkg
	prefix := shortPkg(pkg.PkgPath) + "." + ms.Name + ".init"
	assigns := map[string]ast.Expr{}
	for _, f := range pkg.Syntax {
		for _, d := range f.Decls {
			fd, ok := d.(*ast.FuncDecl)
			if !ok || fd.Name.Name != "init" || fd.Body == nil {
				continue
			}
			for _, s := range fd.Body.List {
				if as, ok := s.(*ast.AssignStmt); ok && len(as.Lhs) == 1 && len(as.Rhs) == 1 {
					if id, ok := as.Lhs[0].(*ast.Ident); ok {
						assigns[id.Name] = as.Rhs[0]
					}
				}
			}
		}
	}
	var out []Ground
	// md_<M> = File.Messages().ByName(p1).Messages().ByName(p2)…  must spell the message's full name (without package)
	rel := strings.TrimPrefix(full, pkgName)
	rel = strings.TrimPrefix(rel, ".")
	md := "md_" + ms.Name
	if e, ok := assigns[md]; ok {
		_, coll, names := byNameChain(e)
		okc := strings.Join(names, ".") == rel
		for _, cn := range coll {
			if cn != "Messages" {
				okc = false
			}
		}
		out = append(out, Ground{Name: prefix + "/" + md + "/looks-up-own-full-name", OK: okc, Text: md + " is looked up by the message's own name path " + rel, Detail: strings.Join(names, ".")})
	} else {
		out = append(out, Ground{Name: prefix + "/" + md + "/assigned", OK: false, Text: md + " is initialised in init()"})
	}
	for _, f := range ms.Fields {
		v := "fd_" + ms.Name + "_" + f.ProtoName
		e, ok := assigns[v]
		if !ok {
			out = append(out, Ground{Name: prefix + "/" + v + "/assigned", OK: false, Text: v + " is initialised in init()"})
			continue
		}
		root, coll, names := byNameChain(e)
		okf := root == md && len(names) == 1 && names[0] == f.ProtoName && coll[0] == "Fields"
		out = append(out, Ground{Name: prefix + "/" + v + "/looks-up-own-name", OK: okf, Text: v + " == " + md + ".Fields().ByName(\"" + f.ProtoName + "\")", Detail: root + " " + strings.Join(names, ".")})
	}
	return out
}

// embeddedDescriptorGrounds: for fresh code, the raw descriptor embedded in the generated package equals the request
func embeddedDescriptorGrounds(label string, emitted, request map[string]*descriptorpb.FileDescriptorProto, files []string) []Ground {
	var out []Ground
	for _, name := range files {
		want := request[name]
		got := emitted[name]
		ok := want != nil && got != nil
		if ok {
			w := proto.Clone(want).(*descriptorpb.FileDescriptorProto)
			w.SourceCodeInfo = nil
			g := proto.Clone(got).(*descriptorpb.FileDescriptorProto)
			g.SourceCodeInfo = nil
			ok = proto.Equal(w, g)
		}
		out = append(out, Ground{Name: label + "/" + name + "/embedded-descriptor-equals-request", OK: ok, Text: "the file descriptor registered by the generated package equals the schema given to the generator (custom options included; source info excluded)"})
	}
	return out
}

// globalWriteGrounds (C11): no method of a generated message, of its fast-reflection view or of its list/map wrappers
// (including the size/marshal/unmarshal closures built by ProtoMethods) assigns a package-level variable: shared
// mutable state outside the message would be written by concurrent readers of different — or the same — messages.
// Decided by resolving the root identifier of every assignment target through go/types.
func globalWriteGrounds(pk *packages.Package) []Ground { return globalWriteGroundsOf(pk, false) }

func globalWriteGroundsOf(pk *packages.Package, allFuncs bool) []Ground {
	var out []Ground
	n := 0
	for _, f := range pk.Syntax {
		for _, d := range f.Decls {
			fd, ok := d.(*ast.FuncDecl)
			if !ok || fd.Body == nil || fd.Name.Name == "init" {
				continue
			}
			if fd.Recv == nil && !allFuncs {
				continue
			}
			recv := "func"
			if fd.Recv != nil {
				recv = strings.TrimPrefix(types.ExprString(fd.Recv.List[0].Type), "*")
			}
			check := func(e ast.Expr, pos token.Pos) {
				for {
					switch x := e.(type) {
					case *ast.ParenExpr:
						e = x.X
						continue
					case *ast.SelectorExpr:
						if id, ok := x.X.(*ast.Ident); ok {
							if _, isPkg := pk.TypesInfo.Uses[id].(*types.PkgName); isPkg {
								// otherpkg.Var = …
								if v, ok := pk.TypesInfo.Uses[x.Sel].(*types.Var); ok && !v.IsField() {
									n++
									out = append(out, Ground{Name: fmt.Sprintf("%s/%s.%s/frame[no package-level variable is assigned]#%d", shortPkg(pk.PkgPath), recv, fd.Name.Name, n), OK: false,
										Text: "methods of generated messages, views and wrappers assign no package-level variable", Detail: pk.Fset.Position(pos).String() + ": assigns " + v.Pkg().Name() + "." + v.Name()})
								}
								return
							}
						}
						e = x.X
						continue
					case *ast.IndexExpr:
						e = x.X
						continue
					case *ast.StarExpr:
						e = x.X
						continue
					case *ast.Ident:
						obj := pk.TypesInfo.Uses[x]
						if v, ok := obj.(*types.Var); ok && v.Parent() == pk.Types.Scope() {
							n++
							out = append(out, Ground{Name: fmt.Sprintf("%s/%s.%s/frame[no package-level variable is assigned]#%d", shortPkg(pk.PkgPath), recv, fd.Name.Name, n), OK: false,
								Text: "methods of generated messages, views and wrappers assign no package-level variable", Detail: pk.Fset.Position(pos).String() + ": assigns " + v.Name()})
						}
					}
					return
				}
			}
			ast.Inspect(fd.Body, func(nd ast.Node) bool {
				switch s := nd.(type) {
				case *ast.AssignStmt:
					for _, l := range s.Lhs {
						check(l, s.Pos())
					}
				case *ast.IncDecStmt:
					check(s.X, s.Pos())
				case *ast.CallExpr:
					// pkgVar.Method(…) where the method has a pointer receiver and the variable is a struct value
					// (sync.Pool, sync.Map, sync.Once, caches): the call may write shared state
					if sel, ok := s.Fun.(*ast.SelectorExpr); ok {
						if id, ok := sel.X.(*ast.Ident); ok {
							if v, ok := pk.TypesInfo.Uses[id].(*types.Var); ok && v.Pkg() != nil && v.Parent() == v.Pkg().Scope() {
								if selInfo, ok := pk.TypesInfo.Selections[sel]; ok && selInfo.Kind() == types.MethodVal {
									if fn, ok := selInfo.Obj().(*types.Func); ok {
										if sig, ok := fn.Type().(*types.Signature); ok && sig.Recv() != nil {
											_, ptrRecv := sig.Recv().Type().(*types.Pointer)
											_, varIsPtr := v.Type().Underlying().(*types.Pointer)
											_, varIsIface := v.Type().Underlying().(*types.Interface)
											if ptrRecv && !varIsPtr && !varIsIface {
												n++
												out = append(out, Ground{Name: fmt.Sprintf("%s/%s.%s/frame[no package-level variable is assigned]#%d", shortPkg(pk.PkgPath), recv, fd.Name.Name, n), OK: false,
													Text: "methods of generated messages, views and wrappers assign no package-level variable", Detail: pk.Fset.Position(s.Pos()).String() + ": calls " + v.Name() + "." + fn.Name() + " (pointer receiver on a package-level value: shared mutable state)"})
											}
										}
									}
								}
							}
						}
					}
				case *ast.UnaryExpr:
					// &global handed to something that may write it (sync.Once-less lazy init helpers): flag address-taking of package variables
					if s.Op == token.AND {
						if id, ok := s.X.(*ast.Ident); ok {
							if v, ok := pk.TypesInfo.Uses[id].(*types.Var); ok && v.Parent() == pk.Types.Scope() && !strings.HasPrefix(v.Name(), "file_") {
								n++
								out = append(out, Ground{Name: fmt.Sprintf("%s/%s.%s/frame[no package-level variable is assigned]#%d", shortPkg(pk.PkgPath), recv, fd.Name.Name, n), OK: false,
									Text: "methods of generated messages, views and wrappers assign no package-level variable", Detail: pk.Fset.Position(s.Pos()).String() + ": takes the address of " + v.Name()})
							}
						}
					}
				}
				return true
			})
		}
	}
	out = append(out, Ground{Name: shortPkg(pk.PkgPath) + "/frame[no package-level variable is assigned by a method]", OK: n == 0,
		Text: fmt.Sprintf("no method of the generated package assigns (or takes the address of) a package-level variable (%d found)", n)})
	return out
}

// typeTableGrounds (C19): the Go type table handed to protoimpl.TypeBuilder pairs every Go type with its own
// descriptor.  TypeBuilder matches GoTypes to declarations by position in protobuf-go's "flattened ordering" (enums,
// then messages: all top-level ones, then per message its nested ones, recursively), so the i-th entry of
// file_*_goTypes must be the Go type of the i-th declaration of the embedded descriptor in that order (nil for map
// entries), and the msgTypes index used by each message's ProtoReflect must be its position among the messages.
func typeTableGrounds(pk *packages.Package) []Ground {
	var out []Ground
	fds, err := rawDescriptors([]*packages.Package{pk})
	if err != nil {
		return []Ground{{Name: shortPkg(pk.PkgPath) + "/type-table/descriptor", OK: false, Text: "embedded descriptor can be read", Detail: err.Error()}}
	}
	nonAlnum := regexp.MustCompile(`[^a-zA-Z0-9]`)
	for _, fd := range fds {
		type decl struct {
			goName   string
			mapEntry bool
		}
		var enums []string
		var msgs []decl
		var declE func(goPrefix string, m *descriptorpb.DescriptorProto)
		declE = func(goPrefix string, m *descriptorpb.DescriptorProto) {
			for _, e := range m.EnumType {
				enums = append(enums, goPrefix+goCamel(e.GetName()))
			}
			for _, n := range m.NestedType {
				declE(goPrefix+goCamel(n.GetName())+"_", n)
			}
		}
		for _, e := range fd.EnumType {
			enums = append(enums, goCamel(e.GetName()))
		}
		for _, m := range fd.MessageType {
			declE(goCamel(m.GetName())+"_", m)
		}
		var declM func(goPrefix string, m *descriptorpb.DescriptorProto)
		declM = func(goPrefix string, m *descriptorpb.DescriptorProto) {
			for _, n := range m.NestedType {
				msgs = append(msgs, decl{goPrefix + goCamel(n.GetName()), n.GetOptions().GetMapEntry()})
			}
			for _, n := range m.NestedType {
				declM(goPrefix+goCamel(n.GetName())+"_", n)
			}
		}
		for _, m := range fd.MessageType {
			msgs = append(msgs, decl{goCamel(m.GetName()), false})
		}
		for _, m := range fd.MessageType {
			declM(goCamel(m.GetName())+"_", m)
		}
		out = append(out, enumTableGrounds(pk, fd)...)
		out = append(out, structTagGrounds(pk, fd)...)
		base := rawDescBase[pk.PkgPath+"\x00"+fd.GetName()]
		if base == "" {
			base = "file_" + nonAlnum.ReplaceAllString(fd.GetName(), "_")
		}
		name := shortPkg(pk.PkgPath) + "/" + fd.GetName() + "/type-table"
		out = append(out, rawDescGrounds(pk, fd, base)...)
		var lit *ast.CompositeLit
		for _, f := range pk.Syntax {
			for _, d := range f.Decls {
				gd, ok := d.(*ast.GenDecl)
				if !ok {
					continue
				}
				for _, sp := range gd.Specs {
					vs, ok := sp.(*ast.ValueSpec)
					if ok && len(vs.Names) == 1 && vs.Names[0].Name == base+"_goTypes" && len(vs.Values) == 1 {
						lit, _ = vs.Values[0].(*ast.CompositeLit)
					}
				}
			}
		}
		if lit == nil {
			out = append(out, Ground{Name: name + "/goTypes", OK: false, Text: base + "_goTypes is declared as a composite literal"})
			continue
		}
		entry := func(e ast.Expr) string {
			switch x := e.(type) {
			case *ast.Ident:
				return x.Name // nil
			case *ast.CallExpr:
				if p, ok := x.Fun.(*ast.ParenExpr); ok {
					switch t := p.X.(type) {
					case *ast.StarExpr:
						return "*" + types.ExprString(t.X)
					default:
						return types.ExprString(t)
					}
				}
			}
			return "?"
		}
		okAll := len(lit.Elts) >= len(enums)+len(msgs)
		detail := ""
		for i := 0; okAll && i < len(enums)+len(msgs); i++ {
			got := entry(lit.Elts[i])
			want := ""
			switch {
			case i < len(enums):
				want = enums[i]
			case msgs[i-len(enums)].mapEntry:
				want = "nil"
			default:
				want = "*" + msgs[i-len(enums)].goName
			}
			if got != want {
				okAll = false
				detail = fmt.Sprintf("entry %d is %s, the declaration at that position is %s", i, got, want)
			}
		}
		out = append(out, Ground{Name: name + "/goTypes[i-th Go type == i-th declaration]", OK: okAll, Detail: detail,
			Text: fmt.Sprintf("%s_goTypes lists the %d enums and %d messages of the file in protobuf-go's flattened declaration order", base, len(enums), len(msgs))})
		// dependency index table: the k-th type reference of the file (message fields in flattened declaration order, then
		// method input types, then method output types) must point at the goTypes entry of the type it names
		{
			var enumFull, msgFull []string
			var walkE func(prefix string, m *descriptorpb.DescriptorProto)
			walkE = func(prefix string, m *descriptorpb.DescriptorProto) {
				for _, e := range m.EnumType {
					enumFull = append(enumFull, prefix+m.GetName()+"."+e.GetName())
				}
				for _, n := range m.NestedType {
					walkE(prefix+m.GetName()+".", n)
				}
			}
			pkgPrefix := ""
			if fd.GetPackage() != "" {
				pkgPrefix = fd.GetPackage() + "."
			}
			for _, e := range fd.EnumType {
				enumFull = append(enumFull, pkgPrefix+e.GetName())
			}
			for _, m := range fd.MessageType {
				walkE(pkgPrefix, m)
			}
			type mref struct {
				full string
				m    *descriptorpb.DescriptorProto
			}
			var flat []mref
			var walkM func(prefix string, m *descriptorpb.DescriptorProto)
			walkM = func(prefix string, m *descriptorpb.DescriptorProto) {
				for _, n := range m.NestedType {
					flat = append(flat, mref{prefix + m.GetName() + "." + n.GetName(), n})
				}
				for _, n := range m.NestedType {
					walkM(prefix+m.GetName()+".", n)
				}
			}
			for _, m := range fd.MessageType {
				flat = append(flat, mref{pkgPrefix + m.GetName(), m})
			}
			for _, m := range fd.MessageType {
				walkM(pkgPrefix, m)
			}
			for _, m := range flat {
				msgFull = append(msgFull, m.full)
			}
			local := map[string]int{}
			for i, n := range enumFull {
				local[n] = i
			}
			for i, n := range msgFull {
				local[n] = len(enumFull) + i
			}
			var want []string
			for _, m := range flat {
				for _, f := range m.m.Field {
					if f.GetTypeName() != "" {
						want = append(want, strings.TrimPrefix(f.GetTypeName(), "."))
					}
				}
			}
			nFieldRefs := len(want)
			for _, sv := range fd.Service {
				for _, mt := range sv.Method {
					want = append(want, strings.TrimPrefix(mt.GetInputType(), "."))
				}
			}
			for _, sv := range fd.Service {
				for _, mt := range sv.Method {
					want = append(want, strings.TrimPrefix(mt.GetOutputType(), "."))
				}
			}
			hasExt := len(fd.Extension) > 0
			for _, m := range flat {
				hasExt = hasExt || len(m.m.Extension) > 0
			}
			var dlit *ast.CompositeLit
			for _, f := range pk.Syntax {
				for _, d := range f.Decls {
					if gd, ok := d.(*ast.GenDecl); ok {
						for _, sp := range gd.Specs {
							if vs, ok := sp.(*ast.ValueSpec); ok && len(vs.Names) == 1 && vs.Names[0].Name == base+"_depIdxs" && len(vs.Values) == 1 {
								dlit, _ = vs.Values[0].(*ast.CompositeLit)
							}
						}
					}
				}
			}
			okDeps, det := dlit != nil && !hasExt && len(dlit.Elts) == len(want)+5, ""
			if dlit == nil {
				det = base + "_depIdxs not found"
			} else if hasExt {
				okDeps, det = true, "file declares extensions: table layout not checked"
			} else if len(dlit.Elts) != len(want)+5 {
				det = fmt.Sprintf("%d entries, %d type references + 5 offsets expected", len(dlit.Elts), len(want))
			}
			for k := 0; okDeps && !hasExt && k < len(want); k++ {
				bl, isLit := dlit.Elts[k].(*ast.BasicLit)
				if !isLit {
					okDeps, det = false, "non-literal entry"
					break
				}
				got, _ := strconv.Atoi(bl.Value)
				if li, isLocal := local[want[k]]; isLocal {
					if got != li {
						okDeps = false
						det = fmt.Sprintf("reference %d (%s) points at goTypes[%d], its type is goTypes[%d]", k, want[k], got, li)
					}
				} else if got < len(enumFull)+len(msgFull) {
					okDeps = false
					det = fmt.Sprintf("reference %d names the imported type %s but points at the local declaration goTypes[%d]", k, want[k], got)
				}
			}
			_ = nFieldRefs
			out = append(out, Ground{Name: name + "/depIdxs[every type reference points at its own type]", OK: okDeps, Detail: det,
				Text: fmt.Sprintf("%s_depIdxs resolves the %d field, method-input and method-output type references of the file, in declaration order, to the goTypes entries of the types they name", base, len(want))})
		}
		// legacy Descriptor() / EnumDescriptor(): the index path leads from the file to the declaration (outermost first)
		{
			paths := map[string]string{}
			noGoType := map[string]bool{}
			seenPath := map[string]bool{}
			var walkP func(goPrefix, path string, m *descriptorpb.DescriptorProto)
			walkP = func(goPrefix, path string, m *descriptorpb.DescriptorProto) {
				gn := goPrefix + goCamel(m.GetName())
				paths[gn] = path
				if m.GetOptions().GetMapEntry() {
					noGoType[gn] = true
				}
				for i, e := range m.EnumType {
					paths[gn+"_"+goCamel(e.GetName())] = path + ", " + strconv.Itoa(i)
				}
				for i, n := range m.NestedType {
					walkP(gn+"_", path+", "+strconv.Itoa(i), n)
				}
			}
			for i, e := range fd.EnumType {
				paths[goCamel(e.GetName())] = strconv.Itoa(i)
			}
			for i, m := range fd.MessageType {
				walkP("", strconv.Itoa(i), m)
			}
			for _, f := range pk.Syntax {
				for _, d := range f.Decls {
					fdl, ok := d.(*ast.FuncDecl)
					if !ok || fdl.Recv == nil || fdl.Body == nil || (fdl.Name.Name != "Descriptor" && fdl.Name.Name != "EnumDescriptor") || len(fdl.Body.List) != 1 {
						continue
					}
					recv := strings.TrimPrefix(types.ExprString(fdl.Recv.List[0].Type), "*")
					want, known := paths[recv]
					rs, isRet := fdl.Body.List[0].(*ast.ReturnStmt)
					if !known || !isRet || len(rs.Results) != 2 {
						continue
					}
					if !strings.Contains(types.ExprString(rs.Results[0]), base+"_rawDescGZIP") {
						continue // a declaration of another file of the package
					}
					cl, isLit := rs.Results[1].(*ast.CompositeLit)
					got := "?"
					if isLit {
						var parts []string
						for _, e := range cl.Elts {
							parts = append(parts, types.ExprString(e))
						}
						got = strings.Join(parts, ", ")
					}
					seenPath[recv] = true
					out = append(out, Ground{Name: fmt.Sprintf("%s/%s.%s/descriptor-path", name, recv, fdl.Name.Name), OK: got == want,
						Text: fmt.Sprintf("%s.%s() returns the declaration's index path []int{%s} (outermost first)", recv, fdl.Name.Name, want), Detail: "[]int{" + got + "}"})
				}
			}
			var missing []string
			for gn := range paths {
				if !noGoType[gn] && !seenPath[gn] {
					missing = append(missing, gn)
				}
			}
			sort.Strings(missing)
			out = append(out, Ground{Name: name + "/legacy-descriptor-methods", OK: len(missing) == 0,
				Text: "every message and enum of the file, nested ones included, has the legacy Descriptor() / EnumDescriptor() ([]byte, []int) method", Detail: "missing for " + strings.Join(missing, ", ")})
			out = append(out, oneofWrapperGrounds(pk, fd, base, name)...)
		}
		// file init: every imported file that lives in the same Go package is initialised first (same Go import path — not
		// same proto package — is what makes its init function local)
		{
			same := map[string]bool{}
			for _, other := range fds {
				if other != fd && other.GetOptions().GetGoPackage() == fd.GetOptions().GetGoPackage() {
					for _, dep := range fd.Dependency {
						if dep == other.GetName() {
							if ob := rawDescBase[pk.PkgPath+"\x00"+other.GetName()]; ob != "" {
								same[ob+"_init"] = true
							}
						}
					}
				}
			}
			called := map[string]bool{}
			for _, f := range pk.Syntax {
				for _, d := range f.Decls {
					if fdl, ok := d.(*ast.FuncDecl); ok && fdl.Recv == nil && fdl.Name.Name == base+"_init" && fdl.Body != nil {
						ast.Inspect(fdl.Body, func(n ast.Node) bool {
							if ce, ok := n.(*ast.CallExpr); ok {
								if id, ok := ce.Fun.(*ast.Ident); ok && strings.HasPrefix(id.Name, "file_") && strings.HasSuffix(id.Name, "_init") {
									called[id.Name] = true
								}
							}
							return true
						})
					}
				}
			}
			okInit, det := true, ""
			for k := range same {
				if !called[k] {
					okInit, det = false, "does not call "+k+"()"
				}
			}
			for k := range called {
				if !same[k] {
					okInit, det = false, "calls "+k+"(), which is not an imported file of the same Go package"
				}
			}
			out = append(out, Ground{Name: name + "/init[initialises exactly the imported files of the same Go package]", OK: okInit, Detail: det,
				Text: fmt.Sprintf("%s_init() calls the init function of each of the %d imported files that are generated into the same Go package, and of no other", base, len(same))})
		}
		// enumTypes index used by every enum type's Descriptor() and Type()
		eidx := map[string]int{}
		for i, en := range enums {
			eidx[en] = i
		}
		for _, f := range pk.Syntax {
			for _, d := range f.Decls {
				fdl, ok := d.(*ast.FuncDecl)
				if !ok || fdl.Recv == nil || fdl.Body == nil || (fdl.Name.Name != "Descriptor" && fdl.Name.Name != "Type") {
					continue
				}
				recv := strings.TrimPrefix(types.ExprString(fdl.Recv.List[0].Type), "*")
				want, isEnum := eidx[recv]
				if !isEnum {
					continue
				}
				ast.Inspect(fdl.Body, func(n ast.Node) bool {
					ie, ok := n.(*ast.IndexExpr)
					if !ok {
						return true
					}
					if id, ok := ie.X.(*ast.Ident); ok && id.Name == base+"_enumTypes" {
						if bl, ok := ie.Index.(*ast.BasicLit); ok {
							got, _ := strconv.Atoi(bl.Value)
							out = append(out, Ground{Name: fmt.Sprintf("%s/%s.%s/enumTypes-index", name, recv, fdl.Name.Name), OK: got == want,
								Text: fmt.Sprintf("%s.%s uses the enum info at the enum's own position %d in the flattened declaration order", recv, fdl.Name.Name, want), Detail: fmt.Sprintf("index %d", got)})
						}
					}
					return true
				})
			}
		}
		// msgTypes index used by any method of a message (Reset, ProtoReflect, slowProtoReflect): the message's own position
		idx := map[string]int{}
		for i, m := range msgs {
			idx[m.goName] = i
		}
		for _, f := range pk.Syntax {
			for _, d := range f.Decls {
				fdl, ok := d.(*ast.FuncDecl)
				if !ok || fdl.Recv == nil || fdl.Body == nil {
					continue
				}
				recv := strings.TrimPrefix(types.ExprString(fdl.Recv.List[0].Type), "*")
				want, isMsg := idx[recv]
				if !isMsg {
					continue
				}
				ast.Inspect(fdl.Body, func(n ast.Node) bool {
					ie, ok := n.(*ast.IndexExpr)
					if !ok {
						return true
					}
					if id, ok := ie.X.(*ast.Ident); ok && id.Name == base+"_msgTypes" {
						got := -1
						if bl, ok := ie.Index.(*ast.BasicLit); ok {
							got, _ = strconv.Atoi(bl.Value)
						}
						out = append(out, Ground{Name: fmt.Sprintf("%s/%s.%s/msgTypes-index", name, recv, fdl.Name.Name), OK: got == want,
							Text: fmt.Sprintf("%s.%s uses the message info at the message's own position %d", recv, fdl.Name.Name, want), Detail: fmt.Sprintf("index %s", types.ExprString(ie.Index))})
					}
					return true
				})
			}
		}
	}
	return out
}

// methodsTableGrounds (C10): the fast-path table returned by ProtoMethods leaves Merge, CheckInitialized and Equal
// to protobuf-go's generic algorithms (which then run over the reflection methods proved under contract) and
// advertises exactly the two capabilities the closures implement.
func methodsTableGrounds(ms *MsgSchema) []Ground {
	pkg := ms.Pkg
	name := shortPkg(pkg.PkgPath) + "." + ms.Name + ".ProtoMethods"
	fd := findMethod(pkg, "fastReflection_"+ms.Name, "ProtoMethods")
	if fd == nil {
		return []Ground{{Name: name + "/table", OK: false, Text: "ProtoMethods is generated"}}
	}
	var lits []*ast.CompositeLit
	ast.Inspect(fd.Body, func(n ast.Node) bool {
		if cl, ok := n.(*ast.CompositeLit); ok {
			if t := pkg.TypesInfo.TypeOf(cl); t != nil && strings.HasSuffix(t.String(), "protoiface.Methods") {
				lits = append(lits, cl)
			}
		}
		return true
	})
	if len(lits) != 1 {
		return []Ground{{Name: name + "/table", OK: false, Text: "ProtoMethods builds exactly one protoiface.Methods literal", Detail: fmt.Sprint(len(lits))}}
	}
	fields := map[string]ast.Expr{}
	for _, e := range lits[0].Elts {
		if kv, ok := e.(*ast.KeyValueExpr); ok {
			if id, ok := kv.Key.(*ast.Ident); ok {
				fields[id.Name] = kv.Value
			}
		}
	}
	isNil := func(k string) bool {
		v, ok := fields[k]
		if !ok {
			return true
		}
		id, ok := v.(*ast.Ident)
		return ok && id.Name == "nil"
	}
	var out []Ground
	for _, k := range []string{"Merge", "CheckInitialized", "Equal"} {
		out = append(out, Ground{Name: name + "/table[" + k + " left to the library]", OK: isNil(k), Text: "protoiface.Methods." + k + " is nil: proto." + k + " runs protobuf-go's generic algorithm over the reflection methods"})
	}
	for _, k := range []string{"Size", "Marshal", "Unmarshal"} {
		v, ok := fields[k]
		id, isId := v.(*ast.Ident)
		out = append(out, Ground{Name: name + "/table[" + k + " is the closure under contract]", OK: ok && isId && id.Name == strings.ToLower(k), Text: "protoiface.Methods." + k + " is the " + strings.ToLower(k) + " closure proved under C01–C07"})
	}
	flags := ""
	if v, ok := fields["Flags"]; ok {
		flags = types.ExprString(v)
	}
	out = append(out, Ground{Name: name + "/table[flags]", OK: flags == "protoiface.SupportMarshalDeterministic | protoiface.SupportUnmarshalDiscardUnknown", Detail: flags,
		Text: "the table advertises exactly SupportMarshalDeterministic | SupportUnmarshalDiscardUnknown"})
	return out
}

// stringMethodGround (C19): String() of a generated message is exactly protobuf-go's text rendering of the message
// (`return protoimpl.X.MessageStringOf(x)`), with nothing done to the text afterwards: that rendering is what
// prototext parses back to an equal message (protobuf-go, trusted).
func stringMethodGround(ms *MsgSchema) Ground {
	name := shortPkg(ms.Pkg.PkgPath) + "." + ms.Name + ".String/is-the-library-rendering"
	fd := findMethod(ms.Pkg, ms.Name, "String")
	g := Ground{Name: name, Text: "String() returns protoimpl.X.MessageStringOf(x) unchanged"}
	if fd == nil || fd.Body == nil || len(fd.Body.List) != 1 {
		g.Detail = "String() is not a single return statement"
		return g
	}
	rs, ok := fd.Body.List[0].(*ast.ReturnStmt)
	if !ok || len(rs.Results) != 1 {
		g.Detail = "String() is not a single return statement"
		return g
	}
	call, ok := rs.Results[0].(*ast.CallExpr)
	if !ok || len(call.Args) != 1 || types.ExprString(call.Fun) != "protoimpl.X.MessageStringOf" {
		g.Detail = "returns " + types.ExprString(rs.Results[0])
		return g
	}
	recvName := ""
	if len(fd.Recv.List[0].Names) > 0 {
		recvName = fd.Recv.List[0].Names[0].Name
	}
	if id, ok := call.Args[0].(*ast.Ident); !ok || id.Name != recvName {
		g.Detail = "renders " + types.ExprString(call.Args[0]) + ", not the receiver"
		return g
	}
	g.OK = true
	return g
}

// enumTableGrounds (C19): for every enum of the file, the generated constants and the two lookup tables are those of
// the schema: one constant per declared value with its number (named <scope>_<VALUE>), E_value maps every declared
// name to its number, and E_name maps every number to the first value declared with it (the canonical name that
// protobuf-go's String, text and JSON renderings use when allow_alias gives a number several names).
func enumTableGrounds(pk *packages.Package, fd *descriptorpb.FileDescriptorProto) []Ground {
	var out []Ground
	name := shortPkg(pk.PkgPath) + "/" + fd.GetName() + "/enum"
	lits := map[string]*ast.CompositeLit{}
	for _, f := range pk.Syntax {
		for _, d := range f.Decls {
			gd, ok := d.(*ast.GenDecl)
			if !ok {
				continue
			}
			for _, sp := range gd.Specs {
				if vs, ok := sp.(*ast.ValueSpec); ok && len(vs.Names) == len(vs.Values) {
					for i, id := range vs.Names {
						if cl, ok := vs.Values[i].(*ast.CompositeLit); ok {
							lits[id.Name] = cl
						}
					}
				}
			}
		}
	}
	intOf := func(e ast.Expr) (int64, bool) {
		tv, ok := pk.TypesInfo.Types[e]
		if !ok || tv.Value == nil {
			return 0, false
		}
		return constant.Int64Val(constant.ToInt(tv.Value))
	}
	strOf := func(e ast.Expr) (string, bool) {
		tv, ok := pk.TypesInfo.Types[e]
		if !ok || tv.Value == nil || tv.Value.Kind() != constant.String {
			return "", false
		}
		return constant.StringVal(tv.Value), true
	}
	one := func(scope, goName string, e *descriptorpb.EnumDescriptorProto) {
		wantName := map[int64]string{}
		wantValue := map[string]int64{}
		constsOK, detail := true, ""
		for _, v := range e.Value {
			n := int64(v.GetNumber())
			if _, seen := wantName[n]; !seen {
				wantName[n] = v.GetName()
			}
			wantValue[v.GetName()] = n
			obj, _ := pk.Types.Scope().Lookup(scope + v.GetName()).(*types.Const)
			if obj == nil {
				constsOK, detail = false, "no constant "+scope+v.GetName()
				continue
			}
			if got, exact := constant.Int64Val(constant.ToInt(obj.Val())); !exact || got != n || !strings.HasSuffix(obj.Type().String(), "."+goName) {
				constsOK, detail = false, fmt.Sprintf("%s = %s of type %s, declared %d", obj.Name(), obj.Val(), obj.Type(), n)
			}
		}
		out = append(out, Ground{Name: fmt.Sprintf("%s/%s/constants", name, goName), OK: constsOK, Text: "one Go constant of the enum type per declared value, with the declared number", Detail: detail})
		gotName, okN := map[int64]string{}, lits[goName+"_name"] != nil
		if okN {
			for _, el := range lits[goName+"_name"].Elts {
				kv, ok := el.(*ast.KeyValueExpr)
				if !ok {
					okN = false
					break
				}
				k, ok1 := intOf(kv.Key)
				v, ok2 := strOf(kv.Value)
				if _, dup := gotName[k]; !ok1 || !ok2 || dup {
					okN = false
					break
				}
				gotName[k] = v
			}
		}
		out = append(out, Ground{Name: fmt.Sprintf("%s/%s/name-table", name, goName), OK: okN && fmt.Sprint(gotName) == fmt.Sprint(wantName),
			Text: goName + "_name maps every declared number to the first name declared for it", Detail: fmt.Sprintf("generated %v, schema %v", gotName, wantName)})
		gotValue, okV := map[string]int64{}, lits[goName+"_value"] != nil
		if okV {
			for _, el := range lits[goName+"_value"].Elts {
				kv, ok := el.(*ast.KeyValueExpr)
				if !ok {
					okV = false
					break
				}
				k, ok1 := strOf(kv.Key)
				v, ok2 := intOf(kv.Value)
				if _, dup := gotValue[k]; !ok1 || !ok2 || dup {
					okV = false
					break
				}
				gotValue[k] = v
			}
		}
		out = append(out, Ground{Name: fmt.Sprintf("%s/%s/value-table", name, goName), OK: okV && fmt.Sprint(gotValue) == fmt.Sprint(wantValue),
			Text: goName + "_value maps every declared name to its number", Detail: fmt.Sprintf("generated %v, schema %v", gotValue, wantValue)})
	}
	for _, e := range fd.EnumType {
		one(goCamel(e.GetName())+"_", goCamel(e.GetName()), e)
	}
	var walk func(goPrefix string, m *descriptorpb.DescriptorProto)
	walk = func(goPrefix string, m *descriptorpb.DescriptorProto) {
		for _, e := range m.EnumType {
			one(goPrefix, goPrefix+goCamel(e.GetName()), e)
		}
		for _, n := range m.NestedType {
			walk(goPrefix+goCamel(n.GetName())+"_", n)
		}
	}
	for _, m := range fd.MessageType {
		walk(goCamel(m.GetName())+"_", m)
	}
	return out
}

// rawDescGrounds (C19): the legacy Descriptor() / EnumDescriptor() methods hand out file_*_rawDescGZIP(): the gzip of the
// embedded descriptor.  The helper must compress file_*_rawDescData, a second reference to the descriptor bytes taken
// at variable initialisation (file_*_init sets file_*_rawDesc itself to nil once the types are built).
func rawDescGrounds(pk *packages.Package, fd *descriptorpb.FileDescriptorProto, base string) []Ground {
	name := shortPkg(pk.PkgPath) + "/" + fd.GetName() + "/legacy-descriptor-bytes"
	var fn *ast.FuncDecl
	dataInit := ""
	for _, f := range pk.Syntax {
		for _, d := range f.Decls {
			switch x := d.(type) {
			case *ast.FuncDecl:
				if x.Recv == nil && x.Name.Name == base+"_rawDescGZIP" {
					fn = x
				}
			case *ast.GenDecl:
				for _, sp := range x.Specs {
					if vs, ok := sp.(*ast.ValueSpec); ok {
						for i, id := range vs.Names {
							if id.Name == base+"_rawDescData" && i < len(vs.Values) {
								dataInit = types.ExprString(vs.Values[i])
							}
						}
					}
				}
			}
		}
	}
	if fn == nil {
		return nil
	}
	g := Ground{Name: name, Text: base + "_rawDescGZIP compresses " + base + "_rawDescData, which is initialised with " + base + "_rawDesc, stores the result there and returns it"}
	compressed, stored, returned := "", "", ""
	ast.Inspect(fn.Body, func(n ast.Node) bool {
		switch x := n.(type) {
		case *ast.AssignStmt:
			if len(x.Lhs) == 1 && len(x.Rhs) == 1 {
				if call, ok := x.Rhs[0].(*ast.CallExpr); ok && strings.HasSuffix(types.ExprString(call.Fun), "CompressGZIP") && len(call.Args) == 1 {
					compressed, stored = types.ExprString(call.Args[0]), types.ExprString(x.Lhs[0])
				}
			}
		case *ast.ReturnStmt:
			if len(x.Results) == 1 {
				returned = types.ExprString(x.Results[0])
			}
		}
		return true
	})
	want := base + "_rawDescData"
	g.OK = dataInit == base+"_rawDesc" && compressed == want && stored == want && returned == want
	g.Detail = fmt.Sprintf("rawDescData = %s; compresses %s into %s; returns %s", dataInit, compressed, stored, returned)
	return []Ground{g}
}

// structTagGrounds (C19): protobuf-go's own MessageInfo (the type the registry holds, the one Reset stores and the slow
// path uses) reads the schema of a generated struct from its field tags.  For every message: each declared field that
// is not a oneof member has a struct field tagged with its wire kind, number, label and proto name (maps: also the
// kinds of key and value), and the set of protobuf_oneof tags is the set of the message's oneof names.
func structTagGrounds(pk *packages.Package, fd *descriptorpb.FileDescriptorProto) []Ground {
	var out []Ground
	structs := map[string]*ast.StructType{}
	for _, f := range pk.Syntax {
		for _, d := range f.Decls {
			if gd, ok := d.(*ast.GenDecl); ok {
				for _, sp := range gd.Specs {
					if ts, ok := sp.(*ast.TypeSpec); ok {
						if st, ok := ts.Type.(*ast.StructType); ok {
							structs[ts.Name.Name] = st
						}
					}
				}
			}
		}
	}
	wire := func(t descriptorpb.FieldDescriptorProto_Type) string {
		switch t {
		case descriptorpb.FieldDescriptorProto_TYPE_SINT32:
			return "zigzag32"
		case descriptorpb.FieldDescriptorProto_TYPE_SINT64:
			return "zigzag64"
		case descriptorpb.FieldDescriptorProto_TYPE_FIXED32, descriptorpb.FieldDescriptorProto_TYPE_SFIXED32, descriptorpb.FieldDescriptorProto_TYPE_FLOAT:
			return "fixed32"
		case descriptorpb.FieldDescriptorProto_TYPE_FIXED64, descriptorpb.FieldDescriptorProto_TYPE_SFIXED64, descriptorpb.FieldDescriptorProto_TYPE_DOUBLE:
			return "fixed64"
		case descriptorpb.FieldDescriptorProto_TYPE_STRING, descriptorpb.FieldDescriptorProto_TYPE_BYTES, descriptorpb.FieldDescriptorProto_TYPE_MESSAGE:
			return "bytes"
		case descriptorpb.FieldDescriptorProto_TYPE_GROUP:
			return "group"
		}
		return "varint"
	}
	var walk func(goName string, m *descriptorpb.DescriptorProto)
	walk = func(goName string, m *descriptorpb.DescriptorProto) {
		entries := map[string]*descriptorpb.DescriptorProto{}
		for _, n := range m.NestedType {
			if n.GetOptions().GetMapEntry() {
				entries[n.GetName()] = n
			} else {
				walk(goName+"_"+goCamel(n.GetName()), n)
			}
		}
		name := shortPkg(pk.PkgPath) + "/" + fd.GetName() + "/struct-tags/" + goName
		st := structs[goName]
		if st == nil {
			out = append(out, Ground{Name: name, OK: false, Text: "the message has a generated struct"})
			return
		}
		byNum := map[string]reflect.StructTag{}
		oneofTags := map[string]bool{}
		for _, f := range st.Fields.List {
			if f.Tag == nil {
				continue
			}
			tv, err := strconv.Unquote(f.Tag.Value)
			if err != nil {
				continue
			}
			tag := reflect.StructTag(tv)
			if o, ok := tag.Lookup("protobuf_oneof"); ok {
				oneofTags[o] = true
			}
			if p, ok := tag.Lookup("protobuf"); ok {
				if parts := strings.Split(p, ","); len(parts) >= 2 {
					byNum[parts[1]] = tag
				}
			}
		}
		ok, detail := true, ""
		bad := func(format string, a ...interface{}) {
			if ok {
				ok, detail = false, fmt.Sprintf(format, a...)
			}
		}
		wantOneofs := map[string]bool{}
		for _, f := range m.Field {
			if f.OneofIndex != nil && !f.GetProto3Optional() {
				wantOneofs[m.OneofDecl[f.GetOneofIndex()].GetName()] = true
				continue
			}
			tag, found := byNum[fmt.Sprint(f.GetNumber())]
			if !found {
				bad("no struct field tagged with number %d (%s)", f.GetNumber(), f.GetName())
				continue
			}
			parts := strings.Split(tag.Get("protobuf"), ",")
			label := "opt"
			if f.GetLabel() == descriptorpb.FieldDescriptorProto_LABEL_REPEATED {
				label = "rep"
			} else if f.GetLabel() == descriptorpb.FieldDescriptorProto_LABEL_REQUIRED {
				label = "req"
			}
			hasName := false
			for _, p := range parts {
				if p == "name="+f.GetName() {
					hasName = true
				}
			}
			if len(parts) < 3 || parts[0] != wire(f.GetType()) || parts[2] != label || !hasName {
				bad("field %s: tag %q, schema says %s,%d,%s,name=%s", f.GetName(), tag.Get("protobuf"), wire(f.GetType()), f.GetNumber(), label, f.GetName())
			}
			if e := entries[f.GetTypeName()[strings.LastIndex(f.GetTypeName(), ".")+1:]]; e != nil && f.GetType() == descriptorpb.FieldDescriptorProto_TYPE_MESSAGE && strings.HasSuffix(f.GetTypeName(), "."+m.GetName()+"."+e.GetName()) {
				for i, key := range []string{"protobuf_key", "protobuf_val"} {
					kp := strings.Split(tag.Get(key), ",")
					if len(kp) < 2 || kp[0] != wire(e.Field[i].GetType()) || kp[1] != fmt.Sprint(i+1) {
						bad("map field %s: %s %q, schema says %s,%d", f.GetName(), key, tag.Get(key), wire(e.Field[i].GetType()), i+1)
					}
				}
			}
		}
		if fmt.Sprint(oneofTags) != fmt.Sprint(wantOneofs) {
			bad("protobuf_oneof tags %v, oneofs of the schema %v", oneofTags, wantOneofs)
		}
		out = append(out, Ground{Name: name, OK: ok, Text: "the struct tags of " + goName + " carry the schema of the message (wire kind, number, label, proto name per field; key and value kinds of maps; oneof names)", Detail: detail})
	}
	for _, m := range fd.MessageType {
		walk(goCamel(m.GetName()), m)
	}
	return out
}

// oneofWrapperGrounds (C19): protobuf-go's MessageInfo finds the wrapper type of a oneof member through
// file_*_msgTypes[i].OneofWrappers, filled in by the file's init function.  Every message with members of real (not
// synthetic) oneofs has such a list at its own flattened index, with one wrapper type of that message per member.
func oneofWrapperGrounds(pk *packages.Package, fd *descriptorpb.FileDescriptorProto, base, name string) []Ground {
	type md struct {
		goName string
		m      *descriptorpb.DescriptorProto
	}
	var msgs []md
	var declM func(goPrefix string, m *descriptorpb.DescriptorProto)
	declM = func(goPrefix string, m *descriptorpb.DescriptorProto) {
		for _, n := range m.NestedType {
			msgs = append(msgs, md{goPrefix + goCamel(n.GetName()), n})
		}
		for _, n := range m.NestedType {
			declM(goPrefix+goCamel(n.GetName())+"_", n)
		}
	}
	for _, m := range fd.MessageType {
		msgs = append(msgs, md{goCamel(m.GetName()), m})
	}
	for _, m := range fd.MessageType {
		declM(goCamel(m.GetName())+"_", m)
	}
	got := map[int][]string{}
	for _, f := range pk.Syntax {
		for _, d := range f.Decls {
			fdl, ok := d.(*ast.FuncDecl)
			if !ok || fdl.Recv != nil || fdl.Body == nil || fdl.Name.Name != base+"_init" {
				continue
			}
			ast.Inspect(fdl.Body, func(n ast.Node) bool {
				as, ok := n.(*ast.AssignStmt)
				if !ok || len(as.Lhs) != 1 || len(as.Rhs) != 1 {
					return true
				}
				sel, ok := as.Lhs[0].(*ast.SelectorExpr)
				if !ok || sel.Sel.Name != "OneofWrappers" {
					return true
				}
				ie, ok := sel.X.(*ast.IndexExpr)
				if !ok || types.ExprString(ie.X) != base+"_msgTypes" {
					return true
				}
				idx := -1
				if bl, ok := ie.Index.(*ast.BasicLit); ok {
					idx, _ = strconv.Atoi(bl.Value)
				}
				var names []string
				if cl, ok := as.Rhs[0].(*ast.CompositeLit); ok {
					for _, e := range cl.Elts {
						names = append(names, types.ExprString(e))
					}
				}
				got[idx] = names
				return true
			})
		}
	}
	var out []Ground
	for i, x := range msgs {
		want := 0
		for _, f := range x.m.Field {
			if f.OneofIndex != nil && !f.GetProto3Optional() {
				want++
			}
		}
		if want == 0 && got[i] == nil {
			continue
		}
		ok := len(got[i]) == want
		for _, n := range got[i] {
			if !strings.HasPrefix(n, "(*"+x.goName+"_") {
				ok = false
			}
		}
		out = append(out, Ground{Name: fmt.Sprintf("%s/%s/oneof-wrappers", name, x.goName), OK: ok,
			Text: fmt.Sprintf("%s_msgTypes[%d].OneofWrappers lists one wrapper type of %s per member of its real oneofs (%d)", base, i, x.goName, want), Detail: strings.Join(got[i], ", ")})
	}
	return out
}
