package main

// Emitted-code family: the generated protoreflect.List / protoreflect.Map wrapper types (_<Msg>_<num>_list,
// _<Msg>_<num>_map), mode int.  A wrapper holds a pointer to the slice / map variable of the message field; the
// location it points to is a heap cell.  Every method is executed on an arbitrary wrapper and an arbitrary cell
// content and compared with the abstract transition of the protoreflect interface on that content:
//
//	list  Len, Get(i), Set(i,v), Append(v), AppendMutable, Truncate(n), NewElement, IsValid
//	map   Len, Has(k), Get(k), Set(k,v), Clear(k), Mutable(k), NewValue, IsValid, Range(f)
//
// "For all indices other than i" is proved for one arbitrary (uninterpreted) index; map updates are stated over
// the ghost record of map assignments and deletes (exactly one event, on the map that was in the cell at entry).
// Index and nil-view panics that the interface itself specifies (out-of-range index, mutation through an invalid
// view) are not obligations.

import (
	"fmt"
	"go/ast"
	"go/types"
	"regexp"
	"strconv"
	"strings"
)

type wrapInfo struct {
	named *types.Named
	isMap bool
	f     *FieldSchema
	cellF string     // name of the pointer field: list / m
	contT types.Type // []T or map[K]V
	skip  string     // set when the type is named like a view but is not shaped like one
	name  string
}

var wrapRe = regexp.MustCompile(`^_(.+)_(\d+)_(list|map)$`)

func wrapperTypes(ms *MsgSchema) []wrapInfo {
	var out []wrapInfo
	sc := ms.Pkg.Types.Scope()
	for _, nm := range sc.Names() {
		m := wrapRe.FindStringSubmatch(nm)
		if m == nil || m[1] != ms.Name {
			continue
		}
		tn, ok := sc.Lookup(nm).(*types.TypeName)
		if !ok {
			continue
		}
		nt, ok := tn.Type().(*types.Named)
		if !ok {
			continue
		}
		st, ok := nt.Underlying().(*types.Struct)
		if !ok {
			out = append(out, wrapInfo{name: nm, skip: "a type named like a list/map view is not a struct"})
			continue
		}
		// the view's target is its (first) pointer field; further fields are state of the view itself
		cellIdx := -1
		for i := 0; i < st.NumFields(); i++ {
			if _, isPtr := st.Field(i).Type().(*types.Pointer); isPtr {
				cellIdx = i
				break
			}
		}
		if cellIdx < 0 {
			out = append(out, wrapInfo{name: nm, skip: "a type named like a list/map view has no pointer to its target"})
			continue
		}
		pt := st.Field(cellIdx).Type().(*types.Pointer)
		num, _ := strconv.Atoi(m[2])
		var fs *FieldSchema
		for _, f := range ms.Fields {
			if f.Num == num {
				fs = f
			}
		}
		if fs == nil {
			continue
		}
		out = append(out, wrapInfo{named: nt, isMap: m[3] == "map", f: fs, cellF: st.Field(cellIdx).Name(), contT: pt.Elem(), name: nm})
	}
	return out
}

var listMethods = []string{"Len", "Get", "Set", "Append", "AppendMutable", "Truncate", "NewElement", "IsValid"}
var mapMethods = []string{"Len", "Has", "Get", "Set", "Clear", "Mutable", "NewValue", "IsValid", "Range"}

var wrapperReadMethods = map[string]bool{"Len": true, "Get": true, "Has": true, "Range": true, "IsValid": true, "NewElement": true, "NewValue": true}

func wrapperUnits(prog *Program, ms *MsgSchema) []*Unit { return wrapperUnitsOnly(prog, ms, nil) }

func wrapperUnitsOnly(prog *Program, ms *MsgSchema, only map[string]bool) []*Unit {
	var out []*Unit
	for _, w := range wrapperTypes(ms) {
		if w.skip != "" {
			out = append(out, &Unit{Name: shortPkg(ms.Pkg.PkgPath) + "." + w.name, Skipped: w.skip})
			continue
		}
		ms2 := listMethods
		if w.isMap {
			ms2 = mapMethods
		}
		for _, m := range ms2 {
			if only != nil && !only[m] {
				continue
			}
			out = append(out, wrapperUnit(prog, ms, w, m))
		}
	}
	return out
}

type wrapEngine struct {
	*reflEngine
	w      wrapInfo
	method string
	cell   PtrV   // x.list / x.m at entry
	l0     ListV  // cell content at entry (lists)
	m0     MapV   // cell content at entry (maps)
	kk     string // the arbitrary other index
	calls  []rangeCall
}

func accessorFor(kind string) (string, types.Type) {
	switch kind {
	case "bool":
		return "Bool", types.Typ[types.Bool]
	case "int32", "sint32", "sfixed32", "int64", "sint64", "sfixed64":
		return "Int", types.Typ[types.Int64]
	case "uint32", "fixed32", "uint64", "fixed64":
		return "Uint", types.Typ[types.Uint64]
	case "enum":
		return "Enum", types.Typ[types.Int32]
	case "float", "double":
		return "Float", types.Typ[types.Float64]
	case "string":
		return "String", types.Typ[types.String]
	case "bytes":
		return "Bytes", types.NewSlice(types.Typ[types.Uint8])
	}
	return "", nil
}

var wantKindOf = map[string]string{"bool": "Bool", "int32": "Int32", "sint32": "Int32", "sfixed32": "Int32", "int64": "Int64", "sint64": "Int64", "sfixed64": "Int64",
	"uint32": "Uint32", "fixed32": "Uint32", "uint64": "Uint64", "fixed64": "Uint64", "float": "Float32", "double": "Float64", "string": "String", "bytes": "Bytes", "enum": "Enum", "message": "Message"}

// unwrapped: the Go value the generated code must extract from the protoreflect.Value / MapKey parameter rv for an
// element of kind fs (nil when the conversion is not modelled: float32 narrowing)
func (e *wrapEngine) unwrapped(st *State, rvID string, fs *FieldSchema, goT types.Type) (Val, bool) {
	c := e.c
	rv := RVal{Kind: "?", Id: rvID}
	if fs.Kind == "message" {
		mv, ok := e.valueAccessor(st, rv, "Message", nil).(IfaceV)
		if !ok {
			return nil, false
		}
		nt, _ := derefNamed(goT)
		if iv, ok := e.ifaces[valRepr(mv)]; ok {
			return PtrV{Ref: iv.Ref, Named: nt}, true
		}
		// the code never took value.Message().Interface(): nothing it stored can be the unwrapped message
		return PtrV{Ref: c.freshRaw("unwrapped", "Int"), Named: nt}, true
	}
	acc, t := accessorFor(fs.Kind)
	if acc == "" || fs.Kind == "float" {
		return nil, false
	}
	v := e.valueAccessor(st, rv, acc, t)
	if s, ok := v.(Scalar); ok {
		if ts, ok := c.sortOf(goT); ok {
			if ts.K == "bool" {
				return s, true
			}
			return c.convertSort(s, ts), true
		}
	}
	return v, true
}

// wraps: the returned protoreflect.Value rv is ValueOf<kind>(v) for the element kind
func (e *wrapEngine) wraps(st *State, res Val, fs *FieldSchema, v Val) string {
	c := e.c
	rv, ok := res.(RVal)
	if !ok || rv.Kind != wantKindOf[fs.Kind] {
		return "false"
	}
	switch fs.Kind {
	case "message":
		// ValueOfMessage(v.ProtoReflect()): the argument is the pure view of the element pointer
		p, ok := v.(PtrV)
		if !ok {
			return "false"
		}
		if src, ok := e.views[valRepr(rv.V)]; ok {
			return "(= " + src.Ref + " " + p.Ref + ")"
		}
		return "false"
	}
	got, ok1 := rv.V.(Scalar)
	want, ok2 := v.(Scalar)
	if ok1 && ok2 {
		if got.S.K == "bool" || want.S.K == "bool" {
			return "(= " + got.T + " " + want.T + ")"
		}
		return "(= " + c.convertSort(got, want.S).T + " " + want.T + ")"
	}
	gs, ok1 := rv.V.(SliceV)
	ws, ok2 := v.(SliceV)
	if ok1 && ok2 {
		return and("(= "+gs.Len+" "+ws.Len+")", or("(= "+ws.Len+" 0)", "(= "+nz2(c.sliceArr(st, gs))+" "+nz2(c.sliceArr(st, ws))+")"))
	}
	return "false"
}

func (e *wrapEngine) elemSame(st *State, a, b Val) string {
	switch x := a.(type) {
	case SliceV:
		if y, ok := b.(SliceV); ok {
			return and("(= "+x.Len+" "+y.Len+")", or("(= "+x.Len+" 0)", "(= "+nz2(e.c.sliceArr(st, x))+" "+nz2(e.c.sliceArr(st, y))+")"))
		}
		return "false"
	}
	return sameTerm(a, b)
}

func wrapperUnit(prog *Program, ms *MsgSchema, w wrapInfo, method string) (u *Unit) {
	pkg := ms.Pkg
	wname := w.named.Obj().Name()
	u = &Unit{Name: shortPkg(pkg.PkgPath) + "." + wname + "." + method}
	fd := findMethod(pkg, wname, method)
	if fd == nil {
		u.Skipped = "method not found"
		return u
	}
	c := newCtx(prog, pkg, "int", u.Name)
	schemaByUnit[u.Name] = ms
	c.tag = map[string]string{"message": ms.Name, "method": method, "package": pkg.PkgPath, "wrapper": wname}
	u.Ctx = c
	u.File = c.pos(fd.Pos())
	defer func() {
		if r := recover(); r != nil {
			if us, ok := r.(unsupported); ok {
				u.Skipped = "outside the supported subset: " + us.msg
				return
			}
			panic(r)
		}
	}()
	e := &wrapEngine{reflEngine: &reflEngine{c: c, ms: ms, pure: map[string]Val{}, unit: u}, w: w, method: method}
	st := newState()
	xref := c.freshRaw("x", "Int")
	c.assume("(> " + xref + " 0)")
	e.x = PtrV{Ref: xref, Named: w.named}
	st.env[c.info.Defs[fd.Recv.List[0].Names[0]]] = e.x
	e.fdName = c.freshRaw("fdname", "Int")
	for _, fl := range fd.Type.Params.List {
		for _, nm := range fl.Names {
			obj := c.info.Defs[nm]
			if obj == nil {
				continue
			}
			if nt, ok := obj.Type().(*types.Named); ok && nt.Obj().Pkg() != nil && nt.Obj().Pkg().Path() == protoreflectPkg {
				switch nt.Obj().Name() {
				case "Value":
					st.env[obj] = RVal{Kind: "?", Id: "param"}
					continue
				case "MapKey":
					st.env[obj] = RVal{Kind: "?", Id: "key"}
					continue
				}
			}
			if _, isFn := obj.Type().Underlying().(*types.Signature); isFn {
				st.env[obj] = OpaqueV{T: obj.Type()}
				continue
			}
			st.env[obj] = c.symbolic(st, nm.Name, obj.Type())
		}
	}
	if fd.Type.Results != nil {
		for _, fl := range fd.Type.Results.List {
			c.resTypes = append(c.resTypes, c.info.TypeOf(fl.Type))
		}
	}
	c.callHook = e.hook
	c.assertHook = e.assertHook
	c.assumeAsserts = true // a value of the wrong Go type is a caller error (the interface panics too)
	e.kk = c.freshRaw("otherIndex", "Int")
	e.cell, _ = c.loadField(st, e.x, w.cellF).(PtrV)
	cellNil := "(= " + e.cell.Ref + " 0)"
	// content of the cell at entry (an arbitrary value when the view is invalid: never dereferenced then)
	if w.isMap {
		e.m0, _ = c.loadCell(st, e.cell).(MapV)
	} else {
		e.l0, _ = c.loadCell(st, e.cell).(ListV)
	}
	if w.isMap {
		c.loopSpecFor = e.mapRangeSpec
	} else {
		c.loopSpecFor = e.truncateSpec
	}
	entry := st.clone()
	c.entry = entry
	c.addObl(Obl{Name: u.Name + "/cover[entry]", Kind: "cover", Guard: "true", Goal: "true", Expect: "sat", Text: "entry assumptions are satisfiable"})
	fl := c.execBlock(fd.Body.List, st)
	for _, end := range fl.nexts() {
		c.rets = append(c.rets, &RetState{St: end, Pos: fd.Body.Rbrace})
	}
	// safety: keep the sweep where the interface does not itself panic
	total := map[string]bool{"Len": true, "IsValid": true, "NewElement": true, "NewValue": true}
	if w.isMap {
		total["Has"], total["Get"], total["Clear"], total["Range"] = true, true, true, true
	}
	var keep []*Obl
	for _, ob := range c.obls {
		if strings.HasPrefix(ob.Kind, "safe.") && !total[method] {
			continue
		}
		keep = append(keep, ob)
	}
	c.obls = keep
	for i, pr := range c.panics {
		allowed := "false"
		composite := w.f.Kind == "message"
		if w.isMap {
			composite = w.f.Val.Kind == "message"
		}
		switch {
		case (method == "AppendMutable" || method == "Mutable") && !composite:
			allowed = "true"
		case method == "Set" && w.isMap:
			// invalid key or value
			kv := e.valueAccessor(entry, RVal{Kind: "?", Id: "key"}, "IsValid", nil).(Scalar)
			vv := e.valueAccessor(entry, RVal{Kind: "?", Id: "param"}, "IsValid", nil).(Scalar)
			allowed = or(not(kv.T), not(vv.T))
		}
		c.addObl(Obl{Name: fmt.Sprintf("%s/panic-only-where-specified#%d", u.Name, i+1), Kind: "unreachable-panic", Guard: pr.St.guard, Goal: allowed, Pos: c.pos(pr.Pos), Text: "panic(" + pr.Msg + ") only where the interface panics (Mutable/AppendMutable on non-message elements, Set with an invalid key or value)"})
	}
	add := func(i int, r *RetState, clause, goal, text string) {
		c.addObl(Obl{Name: fmt.Sprintf("%s/ensures[%s]@ret%d", u.Name, clause, i+1), Kind: "ensures", Guard: r.St.guard, Goal: goal, Pos: c.pos(r.Pos), Text: text})
	}
	if wrapperReadMethods[method] {
		// a read method of a view stores into nothing that outlives the call: not into the view itself (a cached key
		// order, a memo) and not into anything reachable from it
		n := 0
		for _, sr := range c.stores {
			if strings.HasPrefix(sr.Key, "fld:") && !freshRef.MatchString(sr.Ref) {
				n++
				c.addObl(Obl{Name: fmt.Sprintf("%s/frame[view not written]#%d", u.Name, n), Kind: "frame", Guard: sr.Guard, Goal: "false", Pos: sr.Pos, Text: method + " performs no store to a field of the view or of an object it did not allocate (" + sr.Key + ")"})
			}
		}
	}
	for i, r := range c.rets {
		var res Val
		if len(r.Vals) > 0 {
			res = r.Vals[0]
		}
		cellAfter, _ := c.loadField(r.St, e.x, w.cellF).(PtrV)
		add(i, r, "view keeps its target", "(= "+cellAfter.Ref+" "+e.cell.Ref+")", "no method re-targets the view")
		if w.isMap {
			e.mapContract(i, r, res, cellNil, add)
		} else {
			e.listContract(i, r, res, cellNil, add)
		}
	}
	if len(c.rets) > 0 {
		g := "false"
		for _, r := range c.rets {
			g = or(g, r.St.guard)
		}
		c.addObl(Obl{Name: u.Name + "/canary[return reachable]", Kind: "canary", Guard: g, Goal: "true", Expect: "sat", Text: "a return point is reachable"})
	}
	return u
}

func (e *wrapEngine) scalarRes(res Val) string {
	if s, ok := res.(Scalar); ok {
		return s.T
	}
	return "false"
}

func (e *wrapEngine) listContract(i int, r *RetState, res Val, cellNil string, add func(int, *RetState, string, string, string)) {
	c := e.c
	f := e.w.f
	elemT := e.w.contT.Underlying().(*types.Slice).Elem()
	l1, _ := c.loadCell(r.St, e.cell).(ListV)
	l0 := e.l0
	unchanged := and("(= "+l1.Len+" "+l0.Len+")", and("(= "+l1.Nil+" "+l0.Nil+")", "(= "+l1.Elems+" "+l0.Elems+")"))
	kk := e.kk
	other := func(lo, hi string) string { // element kk (lo <= kk < hi) is unchanged
		return implies(and("(<= "+lo+" "+kk+")", "(< "+kk+" "+hi+")"), "(= (select "+l1.Elems+" "+kk+") (select "+l0.Elems+" "+kk+"))")
	}
	param := func(name string) string {
		for o, v := range c.entry.env {
			if o.Name() == name {
				if s, ok := v.(Scalar); ok {
					return s.T
				}
			}
		}
		return "0"
	}
	switch e.method {
	case "Len":
		add(i, r, "length", "(= "+e.scalarRes(res)+" (ite "+cellNil+" 0 "+l0.Len+"))", "Len() is the length of the field's slice, 0 for an invalid view")
		add(i, r, "list unchanged", or(cellNil, unchanged), "Len does not change the list")
	case "IsValid":
		add(i, r, "valid iff it has a target", "(= "+e.scalarRes(res)+" (not "+cellNil+"))", "IsValid() == (the view points at a field)")
		add(i, r, "list unchanged", or(cellNil, unchanged), "IsValid does not change the list")
	case "Get":
		idx := param("i")
		add(i, r, "element", e.wraps(r.St, res, f, c.listElem(r.St, l0, idx)), "Get(i) wraps element i with the element kind's constructor")
		add(i, r, "list unchanged", unchanged, "Get does not change the list")
	case "Set":
		idx := param("i")
		if want, ok := e.unwrapped(r.St, "param", f, elemT); ok {
			add(i, r, "element stored", e.elemSame(r.St, c.listElem(r.St, l1, idx), want), "Set(i, v) stores the unwrapped value at index i")
		}
		add(i, r, "other elements kept", and("(= "+l1.Len+" "+l0.Len+")", or("(= "+kk+" "+idx+")", other("0", l0.Len))), "Set(i, v) keeps the length and every other element")
	case "Append":
		if want, ok := e.unwrapped(r.St, "param", f, elemT); ok {
			add(i, r, "element appended", e.elemSame(r.St, c.listElem(r.St, l1, l0.Len), want), "Append(v) stores the unwrapped value at the old length")
		}
		add(i, r, "prefix kept", and("(= "+l1.Len+" (+ "+l0.Len+" 1))", other("0", l0.Len)), "Append(v) grows the list by one and keeps every earlier element")
	case "AppendMutable":
		if f.Kind == "message" {
			el, _ := c.listElem(r.St, l1, l0.Len).(PtrV)
			add(i, r, "fresh element appended", and("(not (= "+el.Ref+" 0))", e.wraps(r.St, res, f, el)), "AppendMutable() appends a new non-nil message and returns its view")
			add(i, r, "prefix kept", and("(= "+l1.Len+" (+ "+l0.Len+" 1))", other("0", l0.Len)), "AppendMutable() grows the list by one and keeps every earlier element")
		}
	case "Truncate":
		n := param("n")
		add(i, r, "prefix kept", and("(= "+l1.Len+" "+n+")", other("0", n)), "Truncate(n) sets the length to n and keeps the first n elements")
	case "NewElement":
		rv, ok := res.(RVal)
		goal := "false"
		if ok && rv.Kind == wantKindOf[f.Kind] {
			goal = "true"
			switch v := rv.V.(type) {
			case Scalar:
				goal = "(= " + v.T + " " + c.zero(v.S) + ")"
			case SliceV:
				goal = "(= " + v.Len + " 0)"
			}
		}
		add(i, r, "zero element", goal, "NewElement() is the zero value of the element kind (a new empty message), not stored in the list")
		add(i, r, "list unchanged", or(cellNil, unchanged), "NewElement does not change the list")
	}
}

// truncateSpec: `for i := n; i < len(*x.list); i++ { (*x.list)[i] = nil }`
func (e *wrapEngine) truncateSpec(c *Ctx, ord int, loop ast.Stmt) *LoopSpec {
	fs, ok := loop.(*ast.ForStmt)
	if !ok || e.method != "Truncate" {
		return nil
	}
	_ = fs
	get := func(st *State, name string) string {
		for o, v := range st.env {
			if o.Name() == name {
				if s, ok := v.(Scalar); ok {
					return s.T
				}
			}
		}
		return "0"
	}
	return &LoopSpec{
		InvFn: func(c *Ctx, st *State, _ string) string {
			l, ok := c.loadCell(st, e.cell).(ListV)
			if !ok {
				return "false"
			}
			n, i := get(st, "n"), get(st, "i")
			return and("(<= "+n+" "+i+")", and("(= "+l.Len+" "+e.l0.Len+")",
				implies(and("(<= 0 "+e.kk+")", "(< "+e.kk+" "+n+")"), "(= (select "+l.Elems+" "+e.kk+") (select "+e.l0.Elems+" "+e.kk+"))")))
		},
		DecFn: func(c *Ctx, before, after *State) string {
			i0, i1 := get(before, "i"), get(after, "i")
			return and("(< "+i0+" "+i1+")", "(< "+i0+" "+e.l0.Len+")")
		},
	}
}

func (e *wrapEngine) mapContract(i int, r *RetState, res Val, cellNil string, add func(int, *RetState, string, string, string)) {
	c := e.c
	f := e.w.f
	mt := e.w.contT.Underlying().(*types.Map)
	m1, _ := c.loadCell(r.St, e.cell).(MapV)
	m0 := e.m0
	unchanged := and("(= "+m1.Id+" "+m0.Id+")", and("(= "+m1.Len+" "+m0.Len+")", "(= "+m1.Nil+" "+m0.Nil+")"))
	c.declareFun("MapHas", "(Int Int) Bool")
	c.declareFun("MapGet", "(Int Int) Int")
	key, okK := e.unwrapped(r.St, "key", f.Key, mt.Key())
	kid := ""
	if okK {
		kid = c.keyID(r.St, key)
	}
	has0 := and(not(cellNil), "(MapHas "+m0.Id+" "+kid+")")
	lookup0 := func() Val { return c.mapLookup(r.St, m0, key, false)[0] }
	event := func(del bool, wantV Val) string {
		goal := "false"
		for _, ev := range c.mapEvents {
			if ev.Del != del {
				continue
			}
			g := and(ev.Guard, and("(= "+ev.Old.Id+" "+m0.Id+")", and("(= "+ev.New.Id+" "+m1.Id+")", e.elemSame(r.St, ev.K, key))))
			if !del && wantV != nil {
				g = and(g, e.elemSame(r.St, ev.V, wantV))
			}
			goal = or(goal, g)
		}
		return goal
	}
	switch e.method {
	case "Len":
		add(i, r, "length", "(= "+e.scalarRes(res)+" (ite "+cellNil+" 0 "+m0.Len+"))", "Len() is the number of entries, 0 for an invalid view")
		add(i, r, "map unchanged", or(cellNil, unchanged), "Len does not change the map")
	case "IsValid":
		add(i, r, "valid iff it has a target", "(= "+e.scalarRes(res)+" (not "+cellNil+"))", "IsValid() == (the view points at a field)")
		add(i, r, "map unchanged", or(cellNil, unchanged), "IsValid does not change the map")
	case "Has":
		if okK {
			add(i, r, "membership", "(= "+e.scalarRes(res)+" "+has0+")", "Has(k) == k is a key of the map (false for an invalid view)")
		}
		add(i, r, "map unchanged", or(cellNil, unchanged), "Has does not change the map")
	case "Get":
		if okK {
			rv, isRV := res.(RVal)
			invalid := "false"
			if isRV && rv.Kind == "Invalid" {
				invalid = "true"
			}
			valid := "false"
			if isRV && rv.Kind != "Invalid" {
				valid = e.wraps(r.St, res, f.Val, lookup0())
			}
			add(i, r, "value", "(ite "+has0+" "+valid+" "+invalid+")", "Get(k) wraps the value stored under k, and is the invalid Value when k is absent or the view is invalid")
		}
		add(i, r, "map unchanged", or(cellNil, unchanged), "Get does not change the map")
	case "Set":
		if want, ok := e.unwrapped(r.St, "param", f.Val, mt.Elem()); ok && okK {
			add(i, r, "entry stored", event(false, want), "Set(k, v) is exactly one assignment map[k] = unwrapped v on the map the view points at")
		} else if okK {
			add(i, r, "entry stored", event(false, nil), "Set(k, v) is exactly one assignment map[k] = … on the map the view points at")
		}
	case "Clear":
		if okK {
			add(i, r, "entry deleted", "(ite "+cellNil+" true "+event(true, nil)+")", "Clear(k) is exactly one delete(map, k) on the map the view points at (nothing for an invalid view)")
		}
	case "Mutable":
		if f.Val.Kind == "message" && okK {
			v0, _ := lookup0().(PtrV)
			kept := and(unchanged, e.wraps(r.St, res, f.Val, v0))
			stored := "false"
			for _, ev := range c.mapEvents {
				if ev.Del {
					continue
				}
				if p, ok := ev.V.(PtrV); ok {
					stored = or(stored, and(ev.Guard, and("(= "+ev.Old.Id+" "+m0.Id+")", and("(= "+ev.New.Id+" "+m1.Id+")", and(e.elemSame(r.St, ev.K, key), and("(not (= "+p.Ref+" 0))", e.wraps(r.St, res, f.Val, p)))))))
				}
			}
			add(i, r, "existing value or fresh entry", "(ite (MapHas "+m0.Id+" "+kid+") "+kept+" "+stored+")", "Mutable(k) returns the view of the message stored under k, storing a new non-nil message first when k is absent")
		}
	case "NewValue":
		rv, ok := res.(RVal)
		goal := "false"
		if ok && rv.Kind == wantKindOf[f.Val.Kind] {
			goal = "true"
			switch v := rv.V.(type) {
			case Scalar:
				goal = "(= " + v.T + " " + c.zero(v.S) + ")"
			case SliceV:
				goal = "(= " + v.Len + " 0)"
			}
		}
		add(i, r, "zero value", goal, "NewValue() is the zero value of the value kind (a new empty message), not stored in the map")
		add(i, r, "map unchanged", or(cellNil, unchanged), "NewValue does not change the map")
	case "Range":
		add(i, r, "map unchanged", or(cellNil, unchanged), "Range does not change the map")
	}
}

// mapRangeSpec: `for k, v := range *x.m { if !f(ValueOfK(k).MapKey(), ValueOfV(v)) { break } }`
// per iteration: exactly one callback, with the j-th key and its value wrapped by the right constructors, and the loop
// continues iff the callback returned true.
func (e *wrapEngine) mapRangeSpec(c *Ctx, ord int, loop ast.Stmt) *LoopSpec {
	rs, ok := loop.(*ast.RangeStmt)
	if !ok || e.method != "Range" {
		return nil
	}
	f := e.w.f
	name := func(cl string) string { return fmt.Sprintf("%s/%s", e.unit.Name, cl) }
	var mark int
	return &LoopSpec{
		AxFn: func(c *Ctx, st *State, _ string) { mark = len(e.reflEngine.calls) },
		BodyObl: func(c *Ctx, before, after *State, j string) {
			calls := e.reflEngine.calls[mark:]
			goal := "false"
			if len(calls) == 1 {
				k := calls[0]
				kv, vv := Val(nil), Val(nil)
				for o, v := range before.env {
					if id, ok := rs.Key.(*ast.Ident); ok && o == c.info.Defs[id] {
						kv = v
					}
					if id, ok := rs.Value.(*ast.Ident); ok && o == c.info.Defs[id] {
						vv = v
					}
				}
				_ = k
				if kv != nil && vv != nil {
					goal = and(k.guard, "true")
					goal = and(goal, e.wraps(before, k.val, f.Val, vv))
					if kr, ok := k.key.(RVal); ok {
						goal = and(goal, e.wraps(before, kr, f.Key, kv))
					} else {
						goal = "false"
					}
					// reaching the back edge means the callback answered true
					goal = and(goal, k.ret)
				}
			}
			c.addObl(Obl{Name: name("ensures[one callback per entry, continue iff true]"), Kind: "ensures", Guard: after.guard, Goal: goal, Pos: c.pos(rs.Pos()),
				Text: "each iteration calls f exactly once with (MapKey of the j-th key, Value of its value) wrapped by the kinds' constructors; the loop goes on only if f returned true"})
		},
	}
}
