package main

// Corpus schemas (DESIGN.md Appendix G), built programmatically as FileDescriptorProtos: a kind × shape × tag-width
// matrix that drives every template branch reachable for proto3.

import (
	"fmt"
	"strings"

	"google.golang.org/protobuf/proto"
	"google.golang.org/protobuf/types/descriptorpb"
)

type dpType = descriptorpb.FieldDescriptorProto_Type

var scalarKinds = []struct {
	name string
	t    dpType
}{
	{"double", descriptorpb.FieldDescriptorProto_TYPE_DOUBLE}, {"float", descriptorpb.FieldDescriptorProto_TYPE_FLOAT},
	{"int32", descriptorpb.FieldDescriptorProto_TYPE_INT32}, {"int64", descriptorpb.FieldDescriptorProto_TYPE_INT64},
	{"uint32", descriptorpb.FieldDescriptorProto_TYPE_UINT32}, {"uint64", descriptorpb.FieldDescriptorProto_TYPE_UINT64},
	{"sint32", descriptorpb.FieldDescriptorProto_TYPE_SINT32}, {"sint64", descriptorpb.FieldDescriptorProto_TYPE_SINT64},
	{"fixed32", descriptorpb.FieldDescriptorProto_TYPE_FIXED32}, {"fixed64", descriptorpb.FieldDescriptorProto_TYPE_FIXED64},
	{"sfixed32", descriptorpb.FieldDescriptorProto_TYPE_SFIXED32}, {"sfixed64", descriptorpb.FieldDescriptorProto_TYPE_SFIXED64},
	{"bool", descriptorpb.FieldDescriptorProto_TYPE_BOOL}, {"string", descriptorpb.FieldDescriptorProto_TYPE_STRING},
	{"bytes", descriptorpb.FieldDescriptorProto_TYPE_BYTES},
}

type msgB struct {
	m    *descriptorpb.DescriptorProto
	full string
}

func newMsg(name, full string) *msgB {
	return &msgB{m: &descriptorpb.DescriptorProto{Name: proto.String(name)}, full: full}
}

func (b *msgB) field(name string, num int32, t dpType, typeName string) *descriptorpb.FieldDescriptorProto {
	f := &descriptorpb.FieldDescriptorProto{Name: proto.String(name), Number: proto.Int32(num), Type: t.Enum(),
		Label: descriptorpb.FieldDescriptorProto_LABEL_OPTIONAL.Enum(), JsonName: proto.String(jsonName(name))}
	if typeName != "" {
		f.TypeName = proto.String(typeName)
	}
	b.m.Field = append(b.m.Field, f)
	return f
}

func jsonName(s string) string {
	parts := strings.Split(s, "_")
	for i := 1; i < len(parts); i++ {
		if parts[i] != "" {
			parts[i] = strings.ToUpper(parts[i][:1]) + parts[i][1:]
		}
	}
	return strings.Join(parts, "")
}

func (b *msgB) repeated(name string, num int32, t dpType, typeName string, packed *bool) {
	f := b.field(name, num, t, typeName)
	f.Label = descriptorpb.FieldDescriptorProto_LABEL_REPEATED.Enum()
	if packed != nil {
		f.Options = &descriptorpb.FieldOptions{Packed: packed}
	}
}

func (b *msgB) oneofDecl(name string) int32 {
	b.m.OneofDecl = append(b.m.OneofDecl, &descriptorpb.OneofDescriptorProto{Name: proto.String(name)})
	return int32(len(b.m.OneofDecl) - 1)
}

func (b *msgB) member(oneof int32, name string, num int32, t dpType, typeName string) {
	f := b.field(name, num, t, typeName)
	f.OneofIndex = proto.Int32(oneof)
}

func camel(s string) string {
	var sb strings.Builder
	up := true
	for _, r := range s {
		if r == '_' {
			up = true
			continue
		}
		if up {
			sb.WriteString(strings.ToUpper(string(r)))
			up = false
		} else {
			sb.WriteRune(r)
		}
	}
	return sb.String()
}

func (b *msgB) mapField(name string, num int32, kt dpType, vt dpType, vTypeName string) {
	entry := camel(name) + "Entry"
	e := &descriptorpb.DescriptorProto{Name: proto.String(entry), Options: &descriptorpb.MessageOptions{MapEntry: proto.Bool(true)}}
	e.Field = append(e.Field, &descriptorpb.FieldDescriptorProto{Name: proto.String("key"), Number: proto.Int32(1), Type: kt.Enum(), Label: descriptorpb.FieldDescriptorProto_LABEL_OPTIONAL.Enum(), JsonName: proto.String("key")})
	v := &descriptorpb.FieldDescriptorProto{Name: proto.String("value"), Number: proto.Int32(2), Type: vt.Enum(), Label: descriptorpb.FieldDescriptorProto_LABEL_OPTIONAL.Enum(), JsonName: proto.String("value")}
	if vTypeName != "" {
		v.TypeName = proto.String(vTypeName)
	}
	e.Field = append(e.Field, v)
	b.m.NestedType = append(b.m.NestedType, e)
	f := b.field(name, num, descriptorpb.FieldDescriptorProto_TYPE_MESSAGE, "."+b.full+"."+entry)
	f.Label = descriptorpb.FieldDescriptorProto_LABEL_REPEATED.Enum()
}

func newFile(name, pkg, goPkg string, deps ...string) *descriptorpb.FileDescriptorProto {
	return &descriptorpb.FileDescriptorProto{Name: proto.String(name), Package: proto.String(pkg), Syntax: proto.String("proto3"), Dependency: deps,
		Options: &descriptorpb.FileOptions{GoPackage: proto.String(goPkg)}}
}

var tagNumbers = []int32{1, 15, 16, 2047, 2048, 262143, 262144, 33554431, 33554432, 536870911}

const (
	tMsg  = descriptorpb.FieldDescriptorProto_TYPE_MESSAGE
	tEnum = descriptorpb.FieldDescriptorProto_TYPE_ENUM
)

func corpusFiles() []*descriptorpb.FileDescriptorProto {
	var files []*descriptorpb.FileDescriptorProto
	f := false
	// --- dep: a message and an enum imported from another Go package
	dep := newFile("corpus/dep/dep.proto", "corpus.dep", freshModule+"/corpus/dep")
	dm := newMsg("Dep", "corpus.dep.Dep")
	dm.field("id", 1, descriptorpb.FieldDescriptorProto_TYPE_UINT64, "")
	dm.field("name", 2, descriptorpb.FieldDescriptorProto_TYPE_STRING, "")
	// a message with the same name as corpus.nest.Names (another Go package), with reserved field names: state shared
	// across the files of one invocation must not confuse the two
	dn := newMsg("Names", "corpus.dep.Names")
	dn.field("type", 1, descriptorpb.FieldDescriptorProto_TYPE_STRING, "")
	dn.field("get", 2, descriptorpb.FieldDescriptorProto_TYPE_UINT64, "")
	dep.MessageType = append(dep.MessageType, dm.m, dn.m)
	dep.EnumType = append(dep.EnumType, &descriptorpb.EnumDescriptorProto{Name: proto.String("DepEnum"), Value: []*descriptorpb.EnumValueDescriptorProto{
		{Name: proto.String("DEP_ZERO"), Number: proto.Int32(0)}, {Name: proto.String("DEP_ONE"), Number: proto.Int32(1)}, {Name: proto.String("DEP_NEG"), Number: proto.Int32(-1)}}})
	files = append(files, dep)
	// a file that declares only an enum (its own Go package): it must still be answered with a source file
	kf := newFile("corpus/kinds/kinds.proto", "corpus.kinds", freshModule+"/corpus/kinds")
	kf.EnumType = append(kf.EnumType, &descriptorpb.EnumDescriptorProto{Name: proto.String("Kind"), Value: []*descriptorpb.EnumValueDescriptorProto{
		{Name: proto.String("KIND_NONE"), Number: proto.Int32(0)}, {Name: proto.String("KIND_SOME"), Number: proto.Int32(4)}}})
	files = append(files, kf)
	// custom options: a top-level extension of FieldOptions (as cosmos_proto/cosmos.proto declares them) and one declared
	// inside a message
	xf := newFile("corpus/ext/ext.proto", "corpus.ext", freshModule+"/corpus/ext", "google/protobuf/descriptor.proto")
	xf.Extension = append(xf.Extension, &descriptorpb.FieldDescriptorProto{Name: proto.String("scalar_hint"), JsonName: proto.String("scalarHint"), Number: proto.Int32(93001),
		Label: descriptorpb.FieldDescriptorProto_LABEL_OPTIONAL.Enum(), Type: descriptorpb.FieldDescriptorProto_TYPE_STRING.Enum(), Extendee: proto.String(".google.protobuf.FieldOptions")})
	xh := newMsg("Holder", "corpus.ext.Holder")
	xh.field("name", 1, descriptorpb.FieldDescriptorProto_TYPE_STRING, "")
	xh.m.Extension = append(xh.m.Extension, &descriptorpb.FieldDescriptorProto{Name: proto.String("tag"), JsonName: proto.String("tag"), Number: proto.Int32(93002),
		Label: descriptorpb.FieldDescriptorProto_LABEL_OPTIONAL.Enum(), Type: descriptorpb.FieldDescriptorProto_TYPE_STRING.Enum(), Extendee: proto.String(".google.protobuf.MessageOptions")})
	xf.MessageType = append(xf.MessageType, xh.m)
	files = append(files, xf)
	// a .proto file whose directory differs from the Go import path of its go_package (with an explicit package name),
	// imported from another Go package: file names and import paths follow go_package
	lf := newFile("corpus/protos/loc.proto", "corpus.loc", freshModule+"/corpus/elsewhere;elsepb")
	lm := newMsg("Where", "corpus.loc.Where")
	lm.field("path", 1, descriptorpb.FieldDescriptorProto_TYPE_STRING, "")
	lf.MessageType = append(lf.MessageType, lm.m)
	files = append(files, lf)
	// oneof members whose wrapper names collide: with a nested message (protogen appends '_' to the wrapper) and with
	// a protoreflect.Message method name (the member is renamed, its wrapper is not)
	ef := newFile("corpus/event/event.proto", "corpus.event", freshModule+"/corpus/event", "corpus/protos/loc.proto")
	ev := newMsg("Event", "corpus.event.Event")
	evc := newMsg("Created", "corpus.event.Event.Created")
	evc.field("by", 1, descriptorpb.FieldDescriptorProto_TYPE_STRING, "")
	evd := newMsg("Deleted", "corpus.event.Event.Deleted")
	ev.m.NestedType = append(ev.m.NestedType, evc.m, evd.m)
	ev.field("id", 1, descriptorpb.FieldDescriptorProto_TYPE_UINT64, "")
	ek := ev.oneofDecl("kind")
	ev.member(ek, "created", 2, tMsg, ".corpus.event.Event.Created")
	ev.member(ek, "deleted", 3, tMsg, ".corpus.event.Event.Deleted")
	ev.member(ek, "note", 4, descriptorpb.FieldDescriptorProto_TYPE_STRING, "")
	ev.field("where", 5, tMsg, ".corpus.loc.Where")
	rq := newMsg("Request", "corpus.event.Request")
	ro := rq.oneofDecl("op")
	rq.member(ro, "get", 1, descriptorpb.FieldDescriptorProto_TYPE_STRING, "")
	rq.member(ro, "put", 2, descriptorpb.FieldDescriptorProto_TYPE_STRING, "")
	rq.member(ro, "range", 3, descriptorpb.FieldDescriptorProto_TYPE_BYTES, "")
	ef.MessageType = append(ef.MessageType, ev.m, rq.m)
	files = append(files, ef)
	// a proto path with upper-case letters (file-scoped identifiers are derived from it)
	mc := newFile("corpus/Mixed/CaseTypes.proto", "corpus.mixed", freshModule+"/corpus/mixed")
	mcm := newMsg("TxBody", "corpus.mixed.TxBody")
	mcm.field("memo", 1, descriptorpb.FieldDescriptorProto_TYPE_STRING, "")
	mcm.repeated("amounts", 2, descriptorpb.FieldDescriptorProto_TYPE_UINT64, "", nil)
	mcm.mapField("tags", 3, descriptorpb.FieldDescriptorProto_TYPE_STRING, descriptorpb.FieldDescriptorProto_TYPE_STRING, "")
	mc.MessageType = append(mc.MessageType, mcm.m)
	files = append(files, mc)
	// another proto package living in the same Go package as corpus.dep (Go package, not proto package, decides which
	// init functions a file must call)
	dx := newFile("corpus/dep/depx.proto", "corpus.depx", freshModule+"/corpus/dep")
	dxm := newMsg("Extra", "corpus.depx.Extra")
	dxm.field("note", 1, descriptorpb.FieldDescriptorProto_TYPE_STRING, "")
	dx.MessageType = append(dx.MessageType, dxm.m)
	dx.EnumType = append(dx.EnumType, &descriptorpb.EnumDescriptorProto{Name: proto.String("Grade"), Value: []*descriptorpb.EnumValueDescriptorProto{
		{Name: proto.String("GRADE_A"), Number: proto.Int32(0)}, {Name: proto.String("GRADE_B"), Number: proto.Int32(1)}}})
	files = append(files, dx)
	// a second file of the same Go package that imports the first (its init must not depend on what else is generated)
	dep2 := newFile("corpus/dep/dep2.proto", "corpus.dep", freshModule+"/corpus/dep", "corpus/dep/dep.proto", "corpus/kinds/kinds.proto", "corpus/dep/depx.proto")
	d2 := newMsg("Dep2", "corpus.dep.Dep2")
	d2.field("dep", 1, tMsg, ".corpus.dep.Dep")
	d2.field("kind", 2, tEnum, ".corpus.dep.DepEnum")
	d2.repeated("more", 3, tMsg, ".corpus.dep.Dep", nil)
	// declared out of number order, with references to several distinct types (the dependency index table lists them
	// in declaration order)
	d2.field("extra", 11, tMsg, ".corpus.depx.Extra")
	d2.field("grade", 12, tEnum, ".corpus.depx.Grade")
	d2.field("late_kind", 9, tEnum, ".corpus.kinds.Kind")
	d2.field("early_names", 4, tMsg, ".corpus.dep.Names")
	d2.mapField("kinds_by_name", 7, descriptorpb.FieldDescriptorProto_TYPE_STRING, tEnum, ".corpus.kinds.Kind")
	dep2.MessageType = append(dep2.MessageType, d2.m)
	dep2.Service = append(dep2.Service, &descriptorpb.ServiceDescriptorProto{Name: proto.String("DepService"), Method: []*descriptorpb.MethodDescriptorProto{
		{Name: proto.String("Get"), InputType: proto.String(".corpus.dep.Dep"), OutputType: proto.String(".corpus.dep.Dep2")},
		{Name: proto.String("Put"), InputType: proto.String(".corpus.dep.Names"), OutputType: proto.String(".corpus.dep.Dep")}}})
	files = append(files, dep2)

	// --- scalars: kinds x {singular, packed, unpacked}, tag widths 1..3
	sc := newFile("corpus/scalars/scalars.proto", "corpus.scalars", freshModule+"/corpus/scalars")
	sc.EnumType = append(sc.EnumType, &descriptorpb.EnumDescriptorProto{Name: proto.String("Color"), Value: []*descriptorpb.EnumValueDescriptorProto{
		{Name: proto.String("RED"), Number: proto.Int32(0)}, {Name: proto.String("GREEN"), Number: proto.Int32(1)}, {Name: proto.String("NEG"), Number: proto.Int32(-7)}}})
	s := newMsg("S", "corpus.scalars.S")
	num := int32(1)
	next := func() int32 {
		n := num
		switch {
		case num == 14:
			num = 16 // cross into 2-byte tags
		case num == 40:
			num = 2047
		case num == 2050:
			num = 16384
		default:
			num++
		}
		return n
	}
	for _, k := range scalarKinds {
		s.field("s_"+k.name, next(), k.t, "")
	}
	s.field("s_enum", next(), tEnum, ".corpus.scalars.Color")
	for _, k := range scalarKinds {
		s.repeated("r_"+k.name, next(), k.t, "", nil)
	}
	s.repeated("r_enum", next(), tEnum, ".corpus.scalars.Color", nil)
	for _, k := range scalarKinds {
		if k.name == "string" || k.name == "bytes" {
			continue
		}
		s.repeated("u_"+k.name, next(), k.t, "", &f)
	}
	s.repeated("u_enum", next(), tEnum, ".corpus.scalars.Color", &f)
	// an enum with aliases (several names for one number, a negative number): the first declared name is the canonical one
	sc.EnumType = append(sc.EnumType, &descriptorpb.EnumDescriptorProto{Name: proto.String("Level"), Options: &descriptorpb.EnumOptions{AllowAlias: proto.Bool(true)},
		Value: []*descriptorpb.EnumValueDescriptorProto{
			{Name: proto.String("LEVEL_UNSPECIFIED"), Number: proto.Int32(0)}, {Name: proto.String("LEVEL_LOW"), Number: proto.Int32(1)}, {Name: proto.String("LEVEL_MIN"), Number: proto.Int32(1)},
			{Name: proto.String("LEVEL_HIGH"), Number: proto.Int32(2)}, {Name: proto.String("LEVEL_NEG"), Number: proto.Int32(-3)}, {Name: proto.String("LEVEL_MAX"), Number: proto.Int32(2)},
			{Name: proto.String("LEVEL_DEFAULT"), Number: proto.Int32(0)}}})
	s.field("s_level", next(), tEnum, ".corpus.scalars.Level")
	sc.MessageType = append(sc.MessageType, s.m)
	files = append(files, sc)

	// --- tags: field numbers needing 1..5 tag bytes
	tg := newFile("corpus/tags/tags.proto", "corpus.tags", freshModule+"/corpus/tags")
	t := newMsg("T", "corpus.tags.T")
	tsub := newMsg("Sub", "corpus.tags.Sub")
	tsub.field("v", 1, descriptorpb.FieldDescriptorProto_TYPE_INT32, "")
	for i, n := range tagNumbers {
		switch i % 5 {
		case 0:
			t.field(fmt.Sprintf("u_%d", n), n, descriptorpb.FieldDescriptorProto_TYPE_UINT64, "")
		case 1:
			t.field(fmt.Sprintf("s_%d", n), n, descriptorpb.FieldDescriptorProto_TYPE_STRING, "")
		case 2:
			t.repeated(fmt.Sprintf("p_%d", n), n, descriptorpb.FieldDescriptorProto_TYPE_SINT32, "", nil)
		case 3:
			t.field(fmt.Sprintf("m_%d", n), n, tMsg, ".corpus.tags.Sub")
		case 4:
			t.mapField(fmt.Sprintf("mp_%d", n), n, descriptorpb.FieldDescriptorProto_TYPE_STRING, descriptorpb.FieldDescriptorProto_TYPE_FIXED32, "")
		}
	}
	o3 := t.oneofDecl("big")
	t.member(o3, "big_a", 536870910, descriptorpb.FieldDescriptorProto_TYPE_SFIXED64, "")
	t.member(o3, "big_b", 300, descriptorpb.FieldDescriptorProto_TYPE_BOOL, "")
	tg.MessageType = append(tg.MessageType, t.m, tsub.m)
	files = append(files, tg)

	// --- oneofs: interleaved, all kinds, declaration order != number order
	of := newFile("corpus/oneofs/oneofs.proto", "corpus.oneofs", freshModule+"/corpus/oneofs", "corpus/dep/dep.proto")
	o := newMsg("O", "corpus.oneofs.O")
	osub := newMsg("Leaf", "corpus.oneofs.Leaf")
	osub.field("x", 1, descriptorpb.FieldDescriptorProto_TYPE_STRING, "")
	of.EnumType = append(of.EnumType, &descriptorpb.EnumDescriptorProto{Name: proto.String("Kind"), Value: []*descriptorpb.EnumValueDescriptorProto{
		{Name: proto.String("K0"), Number: proto.Int32(0)}, {Name: proto.String("K5"), Number: proto.Int32(5)}}})
	o.field("before", 1, descriptorpb.FieldDescriptorProto_TYPE_INT64, "")
	first := o.oneofDecl("first")   // members numbered 50..
	second := o.oneofDecl("second") // members numbered 10.. (lower numbers, declared later)
	third := o.oneofDecl("third")
	n := int32(50)
	for _, k := range scalarKinds {
		o.member(first, "f_"+k.name, n, k.t, "")
		n++
	}
	o.member(first, "f_enum", n, tEnum, ".corpus.oneofs.Kind")
	o.member(first, "f_msg", n+1, tMsg, ".corpus.oneofs.Leaf")
	o.field("middle", 5, descriptorpb.FieldDescriptorProto_TYPE_STRING, "")
	o.member(second, "g_msg", 10, tMsg, ".corpus.oneofs.O")
	o.member(second, "g_dep", 11, tMsg, ".corpus.dep.Dep")
	o.member(second, "g_sint", 12, descriptorpb.FieldDescriptorProto_TYPE_SINT64, "")
	o.member(second, "g_depenum", 13, tEnum, ".corpus.dep.DepEnum")
	o.field("after", 100, descriptorpb.FieldDescriptorProto_TYPE_BYTES, "")
	o.member(third, "h_fixed", 3, descriptorpb.FieldDescriptorProto_TYPE_FIXED64, "")
	o.member(third, "h_str", 2, descriptorpb.FieldDescriptorProto_TYPE_STRING, "")
	of.MessageType = append(of.MessageType, o.m, osub.m)
	files = append(files, of)

	// --- maps: every key kind, assorted value kinds
	mf := newFile("corpus/maps/maps.proto", "corpus.maps", freshModule+"/corpus/maps", "corpus/dep/dep.proto")
	m := newMsg("M", "corpus.maps.M")
	mv := newMsg("V", "corpus.maps.V")
	mv.field("n", 1, descriptorpb.FieldDescriptorProto_TYPE_SINT32, "")
	mv.mapField("inner", 2, descriptorpb.FieldDescriptorProto_TYPE_STRING, tMsg, ".corpus.maps.V")
	mf.EnumType = append(mf.EnumType, &descriptorpb.EnumDescriptorProto{Name: proto.String("E"), Value: []*descriptorpb.EnumValueDescriptorProto{
		{Name: proto.String("E0"), Number: proto.Int32(0)}, {Name: proto.String("E2"), Number: proto.Int32(2)}}})
	keyKinds := []string{"int32", "int64", "uint32", "uint64", "sint32", "sint64", "fixed32", "fixed64", "sfixed32", "sfixed64", "bool", "string"}
	valKinds := []string{"int32", "sint64", "fixed32", "double", "bool", "string", "bytes", "float", "uint64", "sfixed64", "sint32", "fixed64"}
	kt := map[string]dpType{}
	for _, k := range scalarKinds {
		kt[k.name] = k.t
	}
	mn := int32(1)
	for i, k := range keyKinds {
		m.mapField("k_"+k+"_"+valKinds[i], mn, kt[k], kt[valKinds[i]], "")
		mn++
		m.mapField("k_"+k+"_msg", mn, kt[k], tMsg, ".corpus.maps.V")
		mn++
	}
	m.mapField("k_string_enum", mn, kt["string"], tEnum, ".corpus.maps.E")
	m.mapField("k_int32_dep", mn+1, kt["int32"], tMsg, ".corpus.dep.Dep")
	m.mapField("far", 70000, kt["uint64"], kt["bytes"], "")
	mf.MessageType = append(mf.MessageType, m.m, mv.m)
	files = append(files, mf)

	// --- nest: nesting, recursion, imports, well-known types, empty message, reserved method names as field names
	nf := newFile("corpus/nest/nest.proto", "corpus.nest", freshModule+"/corpus/nest", "corpus/dep/dep.proto",
		"google/protobuf/any.proto", "google/protobuf/timestamp.proto", "google/protobuf/duration.proto", "google/protobuf/field_mask.proto")
	outer := newMsg("Outer", "corpus.nest.Outer")
	mid := newMsg("Mid", "corpus.nest.Outer.Mid")
	inner := newMsg("Inner", "corpus.nest.Outer.Mid.Inner")
	inner.field("leaf", 1, descriptorpb.FieldDescriptorProto_TYPE_FIXED32, "")
	inner.field("up", 2, tMsg, ".corpus.nest.Outer") // mutual recursion through nesting
	mid.m.NestedType = append(mid.m.NestedType, inner.m)
	mid.field("inner", 1, tMsg, ".corpus.nest.Outer.Mid.Inner")
	mid.repeated("inners", 2, tMsg, ".corpus.nest.Outer.Mid.Inner", nil)
	outer.m.NestedType = append(outer.m.NestedType, mid.m)
	outer.m.EnumType = append(outer.m.EnumType, &descriptorpb.EnumDescriptorProto{Name: proto.String("Mode"), Value: []*descriptorpb.EnumValueDescriptorProto{
		{Name: proto.String("MODE_A"), Number: proto.Int32(0)}, {Name: proto.String("MODE_B"), Number: proto.Int32(3)}}})
	outer.field("mid", 1, tMsg, ".corpus.nest.Outer.Mid")
	outer.field("self", 2, tMsg, ".corpus.nest.Outer")
	outer.repeated("selves", 3, tMsg, ".corpus.nest.Outer", nil)
	outer.field("dep", 4, tMsg, ".corpus.dep.Dep")
	outer.repeated("deps", 5, tMsg, ".corpus.dep.Dep", nil)
	outer.field("dep_enum", 6, tEnum, ".corpus.dep.DepEnum")
	outer.field("any", 7, tMsg, ".google.protobuf.Any")
	outer.field("ts", 8, tMsg, ".google.protobuf.Timestamp")
	outer.field("dur", 9, tMsg, ".google.protobuf.Duration")
	outer.field("mask", 10, tMsg, ".google.protobuf.FieldMask")
	outer.repeated("anys", 11, tMsg, ".google.protobuf.Any", nil)
	outer.field("mode", 12, tEnum, ".corpus.nest.Outer.Mode")
	outer.field("empty", 13, tMsg, ".corpus.nest.Empty")
	outer.mapField("by_name", 14, descriptorpb.FieldDescriptorProto_TYPE_STRING, tMsg, ".corpus.nest.Outer")
	empty := newMsg("Empty", "corpus.nest.Empty")
	names := newMsg("Names", "corpus.nest.Names")
	for i, nm := range []string{"descriptor", "type", "new", "interface", "range", "has", "clear", "get", "set", "mutable", "new_field", "which_oneof", "get_unknown", "set_unknown", "is_valid", "proto_methods", "unknown_fields", "size_cache", "state", "reset", "string", "marshal", "unmarshal"} {
		names.field(nm, int32(i+1), descriptorpb.FieldDescriptorProto_TYPE_INT32, "")
	}
	// oneofs named like protoreflect.Message methods (renamed by rewriteMessageField since the D10 fix)
	wn := newMsg("OneofNames", "corpus.nest.OneofNames")
	ot := wn.oneofDecl("type")
	wn.member(ot, "type_a", 1, descriptorpb.FieldDescriptorProto_TYPE_INT32, "")
	wn.member(ot, "type_b", 2, descriptorpb.FieldDescriptorProto_TYPE_STRING, "")
	or := wn.oneofDecl("range")
	wn.member(or, "range_a", 3, descriptorpb.FieldDescriptorProto_TYPE_BOOL, "")
	wn.member(or, "range_m", 4, tMsg, ".corpus.nest.Empty")
	// a pure namespace message (no fields of its own) whose nested messages use reserved names, and a nested
	// declaration below depth 2 that itself declares a nested (map entry) message followed by later nested ones
	space := newMsg("Space", "corpus.nest.Space")
	coin := newMsg("Coin", "corpus.nest.Space.Coin")
	coin.field("type", 1, descriptorpb.FieldDescriptorProto_TYPE_STRING, "")
	coin.field("amount", 2, descriptorpb.FieldDescriptorProto_TYPE_UINT64, "")
	filter := newMsg("Filter", "corpus.nest.Space.Filter")
	oh := filter.oneofDecl("has")
	filter.member(oh, "has_a", 1, descriptorpb.FieldDescriptorProto_TYPE_INT32, "")
	filter.member(oh, "has_b", 2, descriptorpb.FieldDescriptorProto_TYPE_STRING, "")
	deep := newMsg("Deep", "corpus.nest.Space.Filter.Deep")
	deep.mapField("tags", 1, descriptorpb.FieldDescriptorProto_TYPE_STRING, descriptorpb.FieldDescriptorProto_TYPE_INT64, "")
	deep.field("coin", 2, tMsg, ".corpus.nest.Space.Coin")
	// a nested message declared after a map field: nested_type is [TagsEntry, Leaf] (protoc keeps source order, so
	// synthetic map entries are interleaved with declared messages)
	leaf := newMsg("Leaf", "corpus.nest.Space.Filter.Deep.Leaf")
	leaf.field("weight", 1, descriptorpb.FieldDescriptorProto_TYPE_SINT32, "")
	deep.m.NestedType = append(deep.m.NestedType, leaf.m)
	deep.field("leaf", 3, tMsg, ".corpus.nest.Space.Filter.Deep.Leaf")
	deep.mapField("leaves", 4, descriptorpb.FieldDescriptorProto_TYPE_INT32, tMsg, ".corpus.nest.Space.Filter.Deep.Leaf")
	filter.m.NestedType = append(filter.m.NestedType, deep.m)
	filter.field("deep", 3, tMsg, ".corpus.nest.Space.Filter.Deep")
	space.m.NestedType = append(space.m.NestedType, filter.m, coin.m)
	nf.MessageType = append(nf.MessageType, outer.m, empty.m, names.m, wn.m, space.m)
	files = append(files, nf)
	if runTier == "thorough" {
		files = append(files, randomFiles(runSeed)...)
	}
	return files
}
