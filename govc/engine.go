package main

// Symbolic executor over the typed Go AST: values, states, expressions.
// Passive form: every assigned/merged value is a fresh SMT constant with one defining equation.

import (
	"fmt"
	"go/ast"
	"go/constant"
	"go/token"
	"go/types"
	"math/big"
	"sort"
	"strings"
	"sync"

	"golang.org/x/tools/go/packages"
)

// ---------- values ----------

type Val interface{}

type Scalar struct {
	T string
	S Sort
}

// SliceV: []byte and string values. Content is st.heap[Region] when Region != "" (mutable, tracked), else Arr.
type SliceV struct {
	Region        string
	Arr           string
	Off, Len, Cap string
	Nil           string // Bool term
	Prov          string // provenance tag for C07: "input" | "fresh" | "field" | "const" | "callee" | ""
	IsStr         bool
	Id            string // ghost: the element id this value was read from (list element / map key of string or bytes kind)
}

// ListV: slices of other element types, value semantics.
type ListV struct {
	Len, Elems string // Elems: (Array Int E)
	Nil        string
	ElemT      types.Type
	Prov       string
	PermOf     *MapV // ghost: this list enumerates the keys of that map (each key exactly once)
	Sorted     bool  // ghost: sorted by the key order
}

type MapV struct {
	Len, Nil   string
	Keys, Vals string // enumeration arrays (Array Int K) (Array Int V) under an arbitrary order
	KeyT, ValT types.Type
	Id         string // Int term identifying the map value (for spec functions)
}

type PtrV struct {
	Ref   string // Int term, 0 = nil
	Named *types.Named
	// pointer to a non-struct location (e.g. *[]T inside list wrappers): Cell names a heap key
	Cell  string
	CellT types.Type // type of the location for "cell:" pointers (pointer to a slice or map variable)
}

func (p PtrV) Struct() *types.Struct {
	if p.Named == nil {
		return nil
	}
	s, _ := p.Named.Underlying().(*types.Struct)
	return s
}
func (p PtrV) TypeName() string {
	if p.Named == nil {
		return "?"
	}
	return p.Named.Obj().Name()
}

type IfaceV struct {
	Tag, Ref string // Tag: Int id of the dynamic type (0 = nil interface)
	T        types.Type
}
type ErrV struct{ T string } // Int, 0 = nil
type OpaqueV struct{ T types.Type }
type StructV struct {
	F map[string]Val
	T types.Type
}
type FuncV struct {
	Lit  *ast.FuncLit
	Decl *ast.FuncDecl
}
type TupleV []Val

// ---------- context ----------

type callResult struct {
	Callee string
	Guard  string
	Vals   []Val
}

type RetState struct {
	St   *State
	Vals []Val
	Pos  token.Pos
}

type StoreRec struct {
	Key   string // heap key base (Type.Field)
	Ref   string
	Guard string
	Prov  string
	Pos   string
	TPos  token.Pos
}

type Ctx struct {
	mode string // "bv" | "math" | "int"
	prog *Program
	pkg  *packages.Package
	info *types.Info
	fset *token.FileSet

	bg       []bgLine
	n        int
	obls     []*Obl
	indexed  int
	defIdx   map[string][]int
	uses     map[string][]int
	declared map[string]bool
	oblNames map[string]int

	unit   string
	safeN  map[string]int
	rets   []*RetState
	spec   *FuncSpec
	loopN  int
	depth  int
	pre    string
	tag    map[string]string
	entry  *State
	fdecl  *ast.FuncDecl
	params map[string]types.Object

	heapSorts map[string]string
	errIDs    map[types.Object]int
	abstr     map[string]int
	stores    []StoreRec
	panics    []*PanicRec
	allocN    int
	wrapIdx   map[string]int
	specEnv   map[string]Val // extra ghost bindings visible to contract expressions

	loopSpecFor    func(c *Ctx, ord int, loop ast.Stmt) *LoopSpec
	callHook       func(c *Ctx, x *ast.CallExpr, st *State) ([]Val, bool)
	stmtHook       func(c *Ctx, s ast.Stmt, st *State) (Flow, bool)
	noSafeNil      bool
	assertSeen     map[*AssertClause]bool
	assertHook     func(v Val, target types.Type, st *State) (Val, string, bool) // family engines: type assertions on modelled library values
	bidMemo        map[string]string                                             // ids handed out for byte-sequence values, by syntactic identity of the value
	callResults    []callResult                                                  // ghost record of contract-based calls and what they returned
	listAppends    []listAppend                                                  // ghost record of append(list, elem…) calls
	mapEvents      []mapEvent
	mapMakes       []string // ids of maps created by make in this unit
	onCase         func(c *Ctx, cc *ast.CaseClause, st *State)
	curResults     []types.Object
	resTypes       []types.Type
	panicOK        string
	entryBinds     map[string]Val
	caseExitAll    bool
	ifaceNil       bool
	nilPanics      bool
	assumeAsserts  bool
	mergeA, mergeB *State
	inHook         bool
	funcLits       map[types.Object]*ast.FuncLit
	onCaseExit     func(c *Ctx, cc *ast.CaseClause, entry, end *State)
	curPos         token.Pos
	content        bool
	aliasStores    []StoreRec
	provJoin       map[string][]string // lazily resolved provenance joins (loop heads, merges)
	allocHook      func(st *State, size string, at token.Pos) string
	nilElemStores  []ElemStore
	qn             int
	mu             sync.Mutex
	noDef          bool
	preambleCache  string
	preambleMu     sync.Mutex
	allocs         []AllocRec
	usedSpecs      map[string]bool
}

type PanicRec struct {
	St  *State
	Pos token.Pos
	Msg string
}

func newCtx(prog *Program, pkg *packages.Package, mode, unit string) *Ctx {
	return &Ctx{mode: mode, prog: prog, pkg: pkg, info: pkg.TypesInfo, fset: pkg.Fset, unit: unit,
		safeN: map[string]int{}, heapSorts: map[string]string{}, abstr: map[string]int{}, wrapIdx: map[string]int{}, usedSpecs: map[string]bool{}, specEnv: map[string]Val{}, assertSeen: map[*AssertClause]bool{}}
}

func (c *Ctx) isBV() bool    { return c.mode == "bv" }
func (c *Ctx) isMixed() bool { return c.mode == "int" }
func (c *Ctx) isMath() bool  { return c.mode == "math" }

func (c *Ctx) idx() Sort {
	if c.isBV() {
		return Sort{K: "bv", W: 64, Sg: true}
	}
	return Sort{K: "int", W: 64, Sg: true}
}
func (c *Ctx) pos(p token.Pos) string {
	if !p.IsValid() {
		return ""
	}
	ps := c.fset.Position(p)
	fn := ps.Filename
	if i := strings.Index(fn, "/repo/"); i >= 0 {
		fn = fn[i+6:]
	}
	return fmt.Sprintf("%s:%d", fn, ps.Line)
}
func (c *Ctx) abstracted(what string) { c.abstr[what]++ }

// ---------- state ----------

type State struct {
	guard string
	env   map[types.Object]Val
	heap  map[string]string
}

func newState() *State {
	return &State{guard: "true", env: map[types.Object]Val{}, heap: map[string]string{}}
}

func (s *State) clone() *State {
	n := &State{guard: s.guard, env: make(map[types.Object]Val, len(s.env)), heap: make(map[string]string, len(s.heap))}
	for k, v := range s.env {
		n.env[k] = v
	}
	for k, v := range s.heap {
		n.heap[k] = v
	}
	return n
}

func (c *Ctx) withGuard(st *State, cond string) *State {
	n := st.clone()
	n.guard = c.defRaw("g", "Bool", and(st.guard, cond))
	return n
}

func (c *Ctx) ite(g, a, b, sort string) string {
	if a == b {
		return a
	}
	return c.defRaw("m", sort, fmt.Sprintf("(ite %s %s %s)", g, a, b))
}

func (c *Ctx) mergeVal(g string, a, b Val) Val {
	switch x := a.(type) {
	case Scalar:
		y, ok := b.(Scalar)
		if !ok || x.S.smt() != y.S.smt() {
			return nil
		}
		return Scalar{c.ite(g, x.T, y.T, x.S.smt()), x.S}
	case ErrV:
		y, ok := b.(ErrV)
		if !ok {
			return nil
		}
		return ErrV{c.ite(g, x.T, y.T, "Int")}
	case PtrV:
		var y PtrV
		switch q := b.(type) {
		case PtrV:
			y = q
		case ErrV:
			y = PtrV{Ref: q.T}
		default:
			return nil
		}
		nm := x.Named
		if nm == nil {
			nm = y.Named
		}
		cell, cellT := x.Cell, x.CellT
		if cell == "" {
			cell, cellT = y.Cell, y.CellT
		}
		return PtrV{Ref: c.ite(g, x.Ref, y.Ref, "Int"), Named: nm, Cell: cell, CellT: cellT}
	case IfaceV:
		y, ok := b.(IfaceV)
		if !ok {
			if e, isE := b.(ErrV); isE && e.T == "0" {
				y = IfaceV{Tag: "0", Ref: "0"}
			} else {
				return nil
			}
		}
		return IfaceV{Tag: c.ite(g, x.Tag, y.Tag, "Int"), Ref: c.ite(g, x.Ref, y.Ref, "Int"), T: x.T}
	case SliceV:
		y, ok := b.(SliceV)
		if !ok {
			if e, isE := b.(ErrV); isE && e.T == "0" {
				y = c.nilSlice(x.IsStr)
			} else {
				return nil
			}
		}
		is := c.idx().smt()
		r := SliceV{IsStr: x.IsStr}
		if x.Region == y.Region && x.Region != "" {
			r.Region = x.Region
		} else if x.Region != "" || y.Region != "" {
			// different backing stores: keep a content snapshot only (reads stay exact, writes are refused)
			if c.mergeA == nil || c.mergeB == nil {
				return nil
			}
			r.Arr = c.ite(g, c.sliceArr(c.mergeA, x), c.sliceArr(c.mergeB, y), c.byteArrSort())
		} else {
			r.Arr = c.ite(g, x.Arr, y.Arr, c.byteArrSort())
		}
		r.Off, r.Len, r.Cap = c.ite(g, x.Off, y.Off, is), c.ite(g, x.Len, y.Len, is), c.ite(g, x.Cap, y.Cap, is)
		r.Nil = c.ite(g, x.Nil, y.Nil, "Bool")
		r.Prov = x.Prov
		if y.Prov != x.Prov {
			if x.Prov == "input" || y.Prov == "input" {
				r.Prov = "input"
			} else if strings.HasPrefix(x.Prov, "join:") || strings.HasPrefix(y.Prov, "join:") {
				r.Prov = c.openProv(x.Prov, y.Prov)
			} else {
				r.Prov = "mixed"
			}
		}
		return r
	case ListV:
		y, ok := b.(ListV)
		if !ok {
			return nil
		}
		return ListV{Len: c.ite(g, x.Len, y.Len, c.idx().smt()), Elems: c.ite(g, x.Elems, y.Elems, c.listArrSort(x.ElemT)), Nil: c.ite(g, x.Nil, y.Nil, "Bool"), ElemT: x.ElemT, Prov: x.Prov}
	case MapV:
		y, ok := b.(MapV)
		if !ok {
			return nil
		}
		if x.Id == y.Id {
			return x
		}
		return nil
	case StructV:
		y, ok := b.(StructV)
		if !ok {
			return nil
		}
		r := StructV{F: map[string]Val{}, T: x.T}
		for k, va := range x.F {
			if vb, has := y.F[k]; has {
				if mv := c.mergeVal(g, va, vb); mv != nil {
					r.F[k] = mv
				}
			}
		}
		return r
	case OpaqueV:
		return x
	case FuncV:
		return x
	case RVal:
		if y, ok := b.(RVal); ok && y.Kind == x.Kind {
			if mv := c.mergeVal(g, x.V, y.V); mv != nil {
				return RVal{Kind: x.Kind, V: mv, Id: x.Id + "|" + y.Id}
			}
		}
		return nil
	}
	return nil
}

func (c *Ctx) merge(a, b *State) *State {
	if a == nil {
		return b
	}
	if b == nil {
		return a
	}
	if a.guard == "false" {
		return b
	}
	if b.guard == "false" {
		return a
	}
	n := &State{env: map[types.Object]Val{}, heap: map[string]string{}}
	n.guard = c.defRaw("g", "Bool", or(a.guard, b.guard))
	c.mergeA, c.mergeB = a, b
	defer func() { c.mergeA, c.mergeB = nil, nil }()
	// deterministic order (by declaration position): the emitted definitions then come in the same order for the same
	// code shape, which is what lets alpha-equivalent queries be recognised — and makes runs reproducible
	keys := make([]types.Object, 0, len(a.env))
	for k := range a.env {
		keys = append(keys, k)
	}
	sort.Slice(keys, func(i, j int) bool {
		if keys[i].Pos() != keys[j].Pos() {
			return keys[i].Pos() < keys[j].Pos()
		}
		return keys[i].Name() < keys[j].Name()
	})
	for _, k := range keys {
		va := a.env[k]
		if vb, ok := b.env[k]; ok {
			if mv := c.mergeVal(a.guard, va, vb); mv != nil {
				n.env[k] = mv
			}
		}
	}
	for _, k := range sortedKeys(a.heap) {
		ha := a.heap[k]
		hb, ok := b.heap[k]
		if !ok {
			n.heap[k] = ha
			continue
		}
		n.heap[k] = c.ite(a.guard, ha, hb, c.heapSorts[k])
	}
	for k, hb := range b.heap {
		if _, ok := a.heap[k]; !ok {
			n.heap[k] = hb
		}
	}
	return n
}

func (c *Ctx) mergeAll(sts []*State) *State {
	var r *State
	for _, s := range sts {
		if s != nil {
			r = c.merge(r, s)
		}
	}
	return r
}

// ---------- types ----------

func (c *Ctx) sortOf(t types.Type) (Sort, bool) {
	b, ok := t.Underlying().(*types.Basic)
	if !ok {
		return Sort{}, false
	}
	var w int
	signed := false
	platform := false
	switch b.Kind() {
	case types.Bool, types.UntypedBool:
		return boolSort, true
	case types.Int8:
		w, signed = 8, true
	case types.Int16:
		w, signed = 16, true
	case types.Int32, types.UntypedRune:
		w, signed = 32, true
	case types.Int, types.UntypedInt:
		w, signed, platform = 64, true, true
	case types.Int64:
		w, signed = 64, true
	case types.Float32:
		return Sort{K: "bv", W: 32}, true
	case types.Float64, types.UntypedFloat:
		return Sort{K: "bv", W: 64}, true
	case types.Uint8:
		w = 8
	case types.Uint16:
		w = 16
	case types.Uint32:
		w = 32
	case types.Uint, types.Uintptr:
		w, platform = 64, true
	case types.Uint64:
		w = 64
	default:
		return Sort{}, false
	}
	switch c.mode {
	case "bv":
		return Sort{K: "bv", W: w, Sg: signed}, true
	case "int":
		if platform {
			return Sort{K: "int", W: w, Sg: signed}, true
		}
		return Sort{K: "bv", W: w, Sg: signed}, true
	}
	return Sort{K: "int", W: w, Sg: signed}, true
}

func isFloat(t types.Type) bool {
	b, ok := t.Underlying().(*types.Basic)
	return ok && b.Info()&types.IsFloat != 0
}
func isString(t types.Type) bool {
	b, ok := t.Underlying().(*types.Basic)
	return ok && b.Info()&types.IsString != 0
}
func isByte(t types.Type) bool {
	b, ok := t.Underlying().(*types.Basic)
	return ok && b.Kind() == types.Uint8
}
func isByteSlice(t types.Type) bool {
	s, ok := t.Underlying().(*types.Slice)
	return ok && isByte(s.Elem())
}

func (c *Ctx) lit(v *big.Int, s Sort) string {
	if s.K == "bv" {
		return bvLit(v, s.W)
	}
	return intLit(v)
}
func (c *Ctx) zero(s Sort) string {
	if s.K == "bool" {
		return "false"
	}
	return c.lit(big.NewInt(0), s)
}
func (c *Ctx) ilit(n int64) string { return c.lit(big.NewInt(n), c.idx()) }

func wrapTerm(t string, w int, signed bool) string {
	m := new(big.Int).Lsh(big.NewInt(1), uint(w))
	if !signed {
		return fmt.Sprintf("(mod %s %s)", t, m)
	}
	h := new(big.Int).Lsh(big.NewInt(1), uint(w-1))
	return fmt.Sprintf("(- (mod (+ %s %s) %s) %s)", t, h, m, h)
}

func (c *Ctx) byteArrSort() string { return "(Array " + c.idx().smt() + " (_ BitVec 8))" }
func (c *Ctx) byteSort() Sort {
	if c.isMath() {
		return Sort{K: "int", W: 8}
	}
	return Sort{K: "bv", W: 8}
}

// element sort of a list in SMT: scalars by sort, everything else an Int id / ref
func (c *Ctx) elemSort(t types.Type) string {
	if s, ok := c.sortOf(t); ok {
		return s.smt()
	}
	return "Int"
}
func (c *Ctx) listArrSort(t types.Type) string {
	return "(Array " + c.idx().smt() + " " + c.elemSort(t) + ")"
}

const maxLen = int64(1) << 48

func (c *Ctx) lenBounds(ln string) string {
	return and(c.leIdx(c.ilit(0), ln), c.leIdx(ln, c.ilit(maxLen)))
}

func (c *Ctx) nilSlice(isStr bool) SliceV {
	return SliceV{Arr: c.constArr(), Off: c.ilit(0), Len: c.ilit(0), Cap: c.ilit(0), Nil: "true", Prov: "const", IsStr: isStr}
}
func (c *Ctx) constArr() string {
	if c.specEnv == nil {
		c.specEnv = map[string]Val{}
	}
	if v, ok := c.specEnv["$emptyarr"]; ok {
		return v.(Scalar).T
	}
	a := c.freshRaw("emptyarr", c.byteArrSort())
	c.specEnv["$emptyarr"] = Scalar{T: a}
	return a
}

// ---------- index arithmetic in the function's int model ----------

func (c *Ctx) addIdx(a, b string) string {
	if c.isBV() {
		return "(bvadd " + a + " " + b + ")"
	}
	if a == "0" {
		return b
	}
	if b == "0" {
		return a
	}
	return "(+ " + a + " " + b + ")"
}
func (c *Ctx) subIdx(a, b string) string {
	if c.isBV() {
		return "(bvsub " + a + " " + b + ")"
	}
	if b == "0" {
		return a
	}
	return "(- " + a + " " + b + ")"
}
func (c *Ctx) leIdx(a, b string) string {
	if c.isBV() {
		return "(bvsle " + a + " " + b + ")"
	}
	return "(<= " + a + " " + b + ")"
}
func (c *Ctx) ltIdx(a, b string) string {
	if c.isBV() {
		return "(bvslt " + a + " " + b + ")"
	}
	return "(< " + a + " " + b + ")"
}

func (c *Ctx) sliceArr(st *State, sv SliceV) string {
	if sv.Region != "" {
		if a, ok := st.heap[sv.Region]; ok {
			return a
		}
		a := c.freshRaw("arr_"+sv.Region, c.byteArrSort())
		c.heapSorts[sv.Region] = c.byteArrSort()
		st.heap[sv.Region] = a
		return a
	}
	if sv.Arr == "" {
		return c.constArr()
	}
	return sv.Arr
}

func (c *Ctx) newRegion(st *State, name string) string {
	c.n++
	rg := fmt.Sprintf("rgn:%s%d", name, c.n)
	c.heapSorts[rg] = c.byteArrSort()
	st.heap[rg] = c.freshRaw("arr_"+name, c.byteArrSort())
	return rg
}

// ---------- constants ----------

var internTab = map[string]int{}
var internRev = map[int]string{}

func intern(s string) int {
	id, ok := internTab[s]
	if !ok {
		id = len(internTab) + 1
		internTab[s] = id
		internRev[id] = s
	}
	return id
}

func (c *Ctx) constVal(e ast.Expr) (Val, bool) {
	tv, ok := c.info.Types[e]
	if !ok || tv.Value == nil {
		return nil, false
	}
	return c.constToVal(tv.Value, tv.Type)
}

func (c *Ctx) constToVal(v constant.Value, t types.Type) (Val, bool) {
	if v.Kind() == constant.String {
		return c.strConst(constant.StringVal(v)), true
	}
	s, ok := c.sortOf(t)
	if !ok {
		return nil, false
	}
	switch v.Kind() {
	case constant.Bool:
		if constant.BoolVal(v) {
			return Scalar{"true", s}, true
		}
		return Scalar{"false", s}, true
	case constant.Int:
		bi, _ := new(big.Int).SetString(v.ExactString(), 10)
		return Scalar{c.lit(bi, s), s}, true
	case constant.Float:
		if isFloat(t) {
			if constant.Sign(v) == 0 {
				return Scalar{c.lit(big.NewInt(0), s), s}, true
			}
			return nil, false
		}
		if iv := constant.ToInt(v); iv.Kind() == constant.Int {
			bi, _ := new(big.Int).SetString(iv.ExactString(), 10)
			return Scalar{c.lit(bi, s), s}, true
		}
	}
	return nil, false
}

// string constants: interned id as provenance-free immutable byte sequence with known length
func (c *Ctx) strConst(s string) Val {
	id := intern(s)
	key := fmt.Sprintf("$str%d", id)
	if c.specEnv == nil {
		c.specEnv = map[string]Val{}
	}
	if v, ok := c.specEnv[key]; ok {
		return v
	}
	arr := c.freshRaw("strc", c.byteArrSort())
	if len(s) <= 64 {
		for i := 0; i < len(s); i++ {
			c.assume(fmt.Sprintf("(= (select %s %s) %s)", arr, c.ilit(int64(i)), c.lit(big.NewInt(int64(s[i])), c.byteSort())))
		}
	}
	v := SliceV{Arr: arr, Off: c.ilit(0), Len: c.ilit(int64(len(s))), Cap: c.ilit(int64(len(s))), Nil: "false", Prov: "const", IsStr: true}
	c.specEnv[key] = v
	c.specEnv[fmt.Sprintf("$strid:%s", arr)] = Scalar{T: fmt.Sprint(id), S: strSort}
	return v
}

// strID returns the interned id of a constant string value, if v is one
func (c *Ctx) strID(v Val) (int, bool) {
	sv, ok := v.(SliceV)
	if !ok || sv.Arr == "" {
		return 0, false
	}
	if s, ok := c.specEnv["$strid:"+sv.Arr]; ok {
		var id int
		fmt.Sscan(s.(Scalar).T, &id)
		return id, true
	}
	return 0, false
}

var errorIface = types.Universe.Lookup("error").Type().Underlying().(*types.Interface)

func (c *Ctx) errConst(obj types.Object) Val {
	if c.errIDs == nil {
		c.errIDs = map[types.Object]int{}
	}
	id, ok := c.errIDs[obj]
	if !ok {
		id = len(c.errIDs) + 1
		c.errIDs[obj] = id
	}
	return ErrV{fmt.Sprint(id)}
}

// ---------- symbolic inputs ----------

// symbolic creates an arbitrary value of type t satisfying the type's invariant.
func (c *Ctx) symbolic(st *State, name string, t types.Type) Val {
	if s, ok := c.sortOf(t); ok {
		v := c.fresh(name, s)
		c.assumeRange(v, s)
		return Scalar{v, s}
	}
	switch u := t.Underlying().(type) {
	case *types.Basic:
		if isString(t) {
			ln := c.fresh(name+"_len", c.idx())
			c.assume(c.lenBounds(ln))
			return SliceV{Arr: c.freshRaw(name+"_bytes", c.byteArrSort()), Off: c.ilit(0), Len: ln, Cap: ln, Nil: "false", Prov: "param", IsStr: true}
		}
	case *types.Slice:
		if isByte(u.Elem()) {
			rg := "rgn:" + name
			c.heapSorts[rg] = c.byteArrSort()
			st.heap[rg] = c.freshRaw(name+"_arr", c.byteArrSort())
			ln := c.fresh(name+"_len", c.idx())
			cp := c.fresh(name+"_cap", c.idx())
			nl := c.freshRaw(name+"_nil", "Bool")
			c.assume(and(c.lenBounds(ln), and(c.leIdx(ln, cp), c.leIdx(cp, c.ilit(maxLen)))))
			c.assume(implies(nl, and("(= "+ln+" "+c.ilit(0)+")", "(= "+cp+" "+c.ilit(0)+")")))
			return SliceV{Region: rg, Off: c.ilit(0), Len: ln, Cap: cp, Nil: nl, Prov: "param:" + name}
		}
		ln := c.fresh(name+"_len", c.idx())
		nl := c.freshRaw(name+"_nil", "Bool")
		c.assume(c.lenBounds(ln))
		c.assume(implies(nl, "(= "+ln+" "+c.ilit(0)+")"))
		return ListV{Len: ln, Elems: c.freshRaw(name+"_elems", c.listArrSort(u.Elem())), Nil: nl, ElemT: u.Elem(), Prov: "param"}
	case *types.Pointer:
		ref := c.freshRaw(name, "Int")
		c.assume("(>= " + ref + " 0)")
		nt, _ := u.Elem().(*types.Named)
		return PtrV{Ref: ref, Named: nt}
	case *types.Interface:
		if types.Implements(t, errorIface) && u.NumMethods() == 1 {
			e := c.freshRaw(name, "Int")
			c.assume("(>= " + e + " 0)")
			return ErrV{e}
		}
		tag := c.freshRaw(name+"_tag", "Int")
		ref := c.freshRaw(name+"_ref", "Int")
		c.assume(and("(>= "+tag+" 0)", and("(>= "+ref+" 0)", implies("(= "+tag+" 0)", "(= "+ref+" 0)"))))
		return IfaceV{Tag: tag, Ref: ref, T: t}
	case *types.Struct:
		sv := StructV{F: map[string]Val{}, T: t}
		for i := 0; i < u.NumFields(); i++ {
			f := u.Field(i)
			sv.F[f.Name()] = c.symbolic(st, name+"_"+f.Name(), f.Type())
		}
		return sv
	case *types.Map:
		return c.symbolicMap(name, u)
	case *types.Signature:
		return OpaqueV{T: t}
	}
	return OpaqueV{T: t}
}

func (c *Ctx) symbolicMap(name string, u *types.Map) MapV {
	ln := c.fresh(name+"_len", c.idx())
	nl := c.freshRaw(name+"_nil", "Bool")
	c.assume(c.lenBounds(ln))
	c.assume(implies(nl, "(= "+ln+" "+c.ilit(0)+")"))
	id := c.freshRaw(name+"_mapid", "Int")
	return MapV{Len: ln, Nil: nl, Keys: c.freshRaw(name+"_keys", c.listArrSort(u.Key())), Vals: c.freshRaw(name+"_vals", c.listArrSort(u.Elem())), KeyT: u.Key(), ValT: u.Elem(), Id: id}
}

// zeroValue of a type (for var declarations and named results)
func (c *Ctx) zeroValue(t types.Type) Val {
	if s, ok := c.sortOf(t); ok {
		return Scalar{c.zero(s), s}
	}
	switch u := t.Underlying().(type) {
	case *types.Basic:
		if isString(t) {
			return c.strConst("")
		}
	case *types.Slice:
		if isByte(u.Elem()) {
			return c.nilSlice(false)
		}
		return ListV{Len: c.ilit(0), Elems: c.freshRaw("nil_elems", c.listArrSort(u.Elem())), Nil: "true", ElemT: u.Elem(), Prov: "const"}
	case *types.Pointer:
		nt, _ := u.Elem().(*types.Named)
		return PtrV{Ref: "0", Named: nt}
	case *types.Interface:
		if types.Implements(t, errorIface) && u.NumMethods() == 1 {
			return ErrV{"0"}
		}
		return IfaceV{Tag: "0", Ref: "0", T: t}
	case *types.Struct:
		sv := StructV{F: map[string]Val{}, T: t}
		for i := 0; i < u.NumFields(); i++ {
			sv.F[u.Field(i).Name()] = c.zeroValue(u.Field(i).Type())
		}
		return sv
	case *types.Map:
		return MapV{Len: c.ilit(0), Nil: "true", Keys: c.freshRaw("nil_keys", c.listArrSort(u.Key())), Vals: c.freshRaw("nil_vals", c.listArrSort(u.Elem())), KeyT: u.Key(), ValT: u.Elem(), Id: "0"}
	}
	return OpaqueV{T: t}
}

// ---------- expressions ----------

type unsupported struct{ msg string }

func (c *Ctx) fail(pos token.Pos, f string, a ...interface{}) {
	panic(unsupported{fmt.Sprintf("%s: %s", c.pos(pos), fmt.Sprintf(f, a...))})
}

func (c *Ctx) objOf(id *ast.Ident) types.Object {
	if o := c.info.Uses[id]; o != nil {
		return o
	}
	return c.info.Defs[id]
}

func (c *Ctx) eval(e ast.Expr, st *State) Val {
	if v, ok := c.constVal(e); ok {
		return v
	}
	switch x := e.(type) {
	case *ast.ParenExpr:
		return c.eval(x.X, st)
	case *ast.Ident:
		if x.Name == "nil" {
			if b, ok := c.info.TypeOf(e).(*types.Basic); ok && b.Kind() == types.UntypedNil {
				return ErrV{"0"} // generic nil, coerced at the assignment / return
			}
			return c.zeroValue(c.info.TypeOf(e))
		}
		obj := c.objOf(x)
		if v, ok := st.env[obj]; ok {
			return v
		}
		if gv, ok := obj.(*types.Var); ok {
			if types.Implements(gv.Type(), errorIface) {
				return c.errConst(obj)
			}
			return c.globalVar(st, gv)
		}
		if fn, ok := obj.(*types.Func); ok {
			if fd := c.prog.funcDecl(fn); fd != nil {
				return FuncV{Decl: fd}
			}
			return OpaqueV{T: fn.Type()}
		}
		c.fail(x.Pos(), "unbound identifier %s", x.Name)
	case *ast.FuncLit:
		return FuncV{Lit: x}
	case *ast.SelectorExpr:
		if id, ok := x.X.(*ast.Ident); ok {
			if _, isPkg := c.info.Uses[id].(*types.PkgName); isPkg {
				obj := c.info.Uses[x.Sel]
				if gv, ok := obj.(*types.Var); ok {
					if types.Implements(gv.Type(), errorIface) {
						return c.errConst(obj)
					}
					return c.globalVar(st, gv)
				}
				return OpaqueV{T: c.info.TypeOf(e)}
			}
		}
		// method value or field
		if sel, ok := c.info.Selections[x]; ok && sel.Kind() != types.FieldVal {
			return OpaqueV{T: c.info.TypeOf(e)}
		}
		base := c.eval(x.X, st)
		return c.selectField(st, base, x.Sel.Name, x.Pos(), c.info.TypeOf(e))
	case *ast.StarExpr:
		p := c.eval(x.X, st)
		if pv, ok := p.(PtrV); ok {
			if pv.Cell != "" {
				c.nilCheck(st, pv, x.Pos())
				return c.loadCell(st, pv)
			}
			if pv.Struct() != nil {
				c.nilCheck(st, pv, x.Pos())
				return c.loadStruct(st, pv)
			}
		}
		c.abstracted("deref of unmodelled pointer")
		return c.symbolic(st, "deref", c.info.TypeOf(e))
	case *ast.UnaryExpr:
		return c.unary(x, st)
	case *ast.BinaryExpr:
		return c.binary(x, st)
	case *ast.IndexExpr:
		return c.index(x, st)
	case *ast.TypeAssertExpr:
		return c.typeAssert(x, st, false)[0]
	case *ast.CompositeLit:
		return c.compositeLit(x, st)
	case *ast.SliceExpr:
		return c.sliceExpr(x, st)
	case *ast.CallExpr:
		vs := c.call(x, st)
		if len(vs) == 1 {
			return vs[0]
		}
		return TupleV(vs)
	case *ast.BasicLit:
		// non-constant-folded literal (floats other than 0)
		if isFloat(c.info.TypeOf(e)) {
			s, _ := c.sortOf(c.info.TypeOf(e))
			c.abstracted("float literal")
			return Scalar{c.fresh("flit", s), s}
		}
	}
	c.fail(e.Pos(), "unsupported expression %T", e)
	return nil
}

func (c *Ctx) globalVar(st *State, gv *types.Var) Val {
	if c.specEnv == nil {
		c.specEnv = map[string]Val{}
	}
	key := "$global:" + gv.Pkg().Path() + "." + gv.Name()
	if v, ok := c.specEnv[key]; ok {
		return v
	}
	v := c.symbolic(st, "G_"+gv.Name(), gv.Type())
	if p, ok := v.(PtrV); ok && c.prog != nil && c.prog.contracts.NonNilGlobals[gv.Pkg().Path()+"."+gv.Name()] {
		c.assume("(> " + p.Ref + " 0)")
	}
	c.specEnv[key] = v
	return v
}

// concatStr: a + b on strings (content facts only for units that state something about contents)
func (c *Ctx) concatStr(st *State, a, b SliceV) Val {
	is := c.idx()
	ln := c.def("catlen", is, c.addIdx(a.Len, b.Len))
	arr := c.freshRaw("cat", c.byteArrSort())
	aa, ba := c.sliceArr(st, a), c.sliceArr(st, b)
	k := "k"
	c.contentFact(fmt.Sprintf("(forall ((k %s)) (! (=> %s (= (select %s k) (select %s %s))) :pattern ((select %s k))))", is.smt(), and(c.leIdx(c.ilit(0), k), c.ltIdx(k, a.Len)), arr, aa, c.addIdx(a.Off, k), arr))
	c.contentFact(fmt.Sprintf("(forall ((k %s)) (! (=> %s (= (select %s k) (select %s %s))) :pattern ((select %s k))))", is.smt(), and(c.leIdx(a.Len, k), c.ltIdx(k, ln)), arr, ba, c.addIdx(b.Off, c.subIdx(k, a.Len)), arr))
	return SliceV{Arr: arr, Off: c.ilit(0), Len: ln, Cap: ln, Nil: "false", Prov: "fresh", IsStr: true}
}

func (c *Ctx) nilCheck(st *State, p PtrV, pos token.Pos) {
	if c.nilPanics {
		// a nil dereference is an acceptable (run-time) panic here: the path simply ends
		st.guard = c.defRaw("g", "Bool", and(st.guard, "(not (= "+p.Ref+" 0))"))
		return
	}
	if c.noSafeNil {
		return
	}
	if p.Ref == "0" {
		c.oblige(st, "safe.nil", c.pos(pos), "false", "nil dereference")
		return
	}
	if strings.HasPrefix(p.Ref, "(- ") { // allocation ids are negative literals: never nil
		return
	}
	c.oblige(st, "safe.nil", c.pos(pos), "(not (= "+p.Ref+" 0))", "pointer is not nil")
}

func (c *Ctx) selectField(st *State, base Val, f string, pos token.Pos, ft types.Type) Val {
	switch b := base.(type) {
	case StructV:
		if v, has := b.F[f]; has {
			return v
		}
		// promoted / unknown
		c.abstracted("field of struct value not modelled: " + f)
		return c.symbolic(st, f, ft)
	case OpaqueV:
		c.abstracted("field of opaque value: " + f)
		return c.symbolic(st, f, ft)
	case PtrV:
		if b.Struct() == nil {
			c.abstracted("field through unmodelled pointer: " + f)
			return c.symbolic(st, f, ft)
		}
		c.nilCheck(st, b, pos)
		if fieldType(b.Struct(), f) == nil {
			c.abstracted("embedded/promoted field " + f)
			return c.symbolic(st, f, ft)
		}
		return c.loadField(st, b, f)
	}
	c.fail(pos, "selector .%s on %T", f, base)
	return nil
}

func (c *Ctx) unary(x *ast.UnaryExpr, st *State) Val {
	switch x.Op {
	case token.NOT:
		v := c.eval(x.X, st).(Scalar)
		return Scalar{not(v.T), v.S}
	case token.SUB:
		v := c.eval(x.X, st).(Scalar)
		if v.S.K == "bv" {
			return Scalar{c.def("t", v.S, "(bvneg "+v.T+")"), v.S}
		}
		return Scalar{c.def("t", v.S, wrapTerm("(- "+v.T+")", v.S.W, v.S.Sg)), v.S}
	case token.XOR:
		v := c.eval(x.X, st).(Scalar)
		if v.S.K == "bv" {
			return Scalar{c.def("t", v.S, "(bvnot "+v.T+")"), v.S}
		}
	case token.AND:
		switch in := x.X.(type) {
		case *ast.CompositeLit:
			sv := c.compositeLit(in, st)
			if s, ok := sv.(StructV); ok {
				if nt, ok := s.T.(*types.Named); ok {
					p := c.allocStruct(st, nt)
					c.storeStruct(st, p, s)
					return p
				}
			}
			return OpaqueV{T: c.info.TypeOf(x)}
		case *ast.SelectorExpr:
			// &x.F : pointer to a field cell
			base := c.eval(in.X, st)
			if p, ok := base.(PtrV); ok && p.Struct() != nil {
				c.nilCheck(st, p, in.Pos())
				return PtrV{Ref: p.Ref, Cell: "fld:" + p.TypeName() + "." + in.Sel.Name, Named: p.Named}
			}
		case *ast.Ident:
			// &local: locals of struct type are kept as pointers to an allocated cell
			obj := c.objOf(in)
			if v, ok := st.env[obj]; ok {
				if sv, isS := v.(StructV); isS {
					if nt, ok := sv.T.(*types.Named); ok {
						p := c.allocStruct(st, nt)
						c.storeStruct(st, p, sv)
						st.env[obj] = boxed{p}
						return p
					}
				}
				if bx, isB := v.(boxed); isB {
					return bx.P
				}
			}
		}
		c.abstracted("address-of unmodelled location")
		return c.symbolic(st, "addr", c.info.TypeOf(x))
	}
	c.fail(x.Pos(), "unsupported unary %s", x.Op)
	return nil
}

// boxed: a local struct variable whose address was taken; the variable now lives in the heap
type boxed struct{ P PtrV }

func (c *Ctx) index(x *ast.IndexExpr, st *State) Val {
	bv := c.eval(x.X, st)
	switch b := bv.(type) {
	case OpaqueV:
		c.eval(x.Index, st)
		c.abstracted("index into unmodelled value")
		return c.symbolic(st, "elem", c.info.TypeOf(x))
	case ListV:
		i := c.eval(x.Index, st).(Scalar)
		c.boundsIndex(st, x.Pos(), i.T, b.Len)
		return c.listElem(st, b, i.T)
	case SliceV:
		i := c.eval(x.Index, st).(Scalar)
		c.boundsIndex(st, x.Pos(), i.T, b.Len)
		arr := c.sliceArr(st, b)
		return Scalar{c.def("ld", c.byteSort(), fmt.Sprintf("(select %s %s)", arr, c.addIdx(b.Off, i.T))), Sort{K: "bv", W: 8}}
	case MapV:
		k := c.eval(x.Index, st)
		return c.mapLookup(st, b, k, false)[0]
	case PtrV:
		// pointer to array: not used
	}
	c.fail(x.Pos(), "index on %T", bv)
	return nil
}

func (c *Ctx) boundsIndex(st *State, pos token.Pos, i, ln string) {
	c.oblige(st, "safe.index", c.pos(pos), and(c.leIdx(c.ilit(0), i), c.ltIdx(i, ln)), "0 <= index < len")
}

func (c *Ctx) sliceExpr(x *ast.SliceExpr, st *State) Val {
	bv := c.eval(x.X, st)
	switch b := bv.(type) {
	case OpaqueV:
		c.abstracted("slice of unmodelled value")
		return b
	case SliceV:
		lo, hi := c.ilit(0), b.Len
		if x.Low != nil {
			lo = c.eval(x.Low, st).(Scalar).T
		}
		if x.High != nil {
			hi = c.eval(x.High, st).(Scalar).T
		}
		limit := b.Cap
		if b.IsStr {
			limit = b.Len
		}
		c.oblige(st, "safe.slice", c.pos(x.Pos()), and(c.leIdx(c.ilit(0), lo), and(c.leIdx(lo, hi), c.leIdx(hi, limit))), "0 <= lo <= hi <= cap")
		is := c.idx()
		return SliceV{Region: b.Region, Arr: b.Arr, Off: c.def("off", is, c.addIdx(b.Off, lo)), Len: c.def("len", is, c.subIdx(hi, lo)), Cap: c.def("cap", is, c.subIdx(b.Cap, lo)), Nil: sliceNil(b), Prov: b.Prov, IsStr: b.IsStr}
	case ListV:
		lo, hi := c.ilit(0), b.Len
		if x.Low != nil {
			lo = c.eval(x.Low, st).(Scalar).T
		}
		if x.High != nil {
			hi = c.eval(x.High, st).(Scalar).T
		}
		c.oblige(st, "safe.slice", c.pos(x.Pos()), and(c.leIdx(c.ilit(0), lo), and(c.leIdx(lo, hi), c.leIdx(hi, b.Len))), "0 <= lo <= hi <= len (cap not modelled for lists)")
		if lo == c.ilit(0) {
			return ListV{Len: hi, Elems: b.Elems, Nil: "false", ElemT: b.ElemT, Prov: b.Prov}
		}
		c.abstracted("list reslice with non-zero low bound")
		return ListV{Len: c.def("len", c.idx(), c.subIdx(hi, lo)), Elems: c.freshRaw("resl", c.listArrSort(b.ElemT)), Nil: "false", ElemT: b.ElemT, Prov: b.Prov}
	}
	c.fail(x.Pos(), "slice of %T", bv)
	return nil
}

func (c *Ctx) compositeLit(x *ast.CompositeLit, st *State) Val {
	t := c.info.TypeOf(x)
	if nt, ok := t.(*types.Named); ok && len(x.Elts) == 0 && nt.Obj().Pkg() != nil && nt.Obj().Pkg().Path() == protoreflectPkg && nt.Obj().Name() == "Value" {
		return RVal{Kind: "Invalid", Id: "invalid"} // protoreflect.Value{}: the invalid value
	}
	switch u := t.Underlying().(type) {
	case *types.Struct:
		sv := c.zeroValue(t).(StructV)
		sv.T = t
		for i, el := range x.Elts {
			if kv, ok := el.(*ast.KeyValueExpr); ok {
				if id, ok := kv.Key.(*ast.Ident); ok {
					sv.F[id.Name] = c.eval(kv.Value, st)
				}
			} else if i < u.NumFields() {
				sv.F[u.Field(i).Name()] = c.eval(el, st)
			}
		}
		return sv
	case *types.Slice:
		if len(x.Elts) == 0 {
			if isByte(u.Elem()) {
				rg := c.newRegion(st, "lit")
				return SliceV{Region: rg, Off: c.ilit(0), Len: c.ilit(0), Cap: c.ilit(0), Nil: "false", Prov: "fresh"}
			}
			return ListV{Len: c.ilit(0), Elems: c.freshRaw("lit_elems", c.listArrSort(u.Elem())), Nil: "false", ElemT: u.Elem(), Prov: "fresh"}
		}
		for _, el := range x.Elts {
			c.eval(el, st)
		}
		c.abstracted("non-empty slice literal")
		v := c.symbolic(st, "slit", t)
		return v
	case *types.Map:
		if len(x.Elts) == 0 {
			m := c.symbolicMap("mlit", u)
			c.assume("(= " + m.Len + " " + c.ilit(0) + ")")
			c.assume(not(m.Nil))
			return m
		}
	}
	for _, el := range x.Elts {
		if kv, ok := el.(*ast.KeyValueExpr); ok {
			c.eval(kv.Value, st)
		}
	}
	c.abstracted("composite literal of unmodelled type")
	return OpaqueV{T: t}
}

func (c *Ctx) typeAssert(x *ast.TypeAssertExpr, st *State, commaOk bool) []Val {
	v := c.eval(x.X, st)
	target := c.info.TypeOf(x.Type)
	var okT string
	var res Val
	if c.assertHook != nil {
		if r, ok, handled := c.assertHook(v, target, st); handled {
			res, okT = r, ok
		}
	}
	switch iv := v.(type) {
	case IfaceV:
		if okT != "" {
			break
		}
		if pt, isPtr := target.Underlying().(*types.Pointer); isPtr {
			if nt, isNamed := pt.Elem().(*types.Named); isNamed {
				k := c.typeTag(nt)
				okT = c.defRaw("tyok", "Bool", fmt.Sprintf("(= %s %d)", iv.Tag, k))
				res = PtrV{Ref: iv.Ref, Named: nt}
			}
		}
		if okT == "" {
			if _, isIface := target.Underlying().(*types.Interface); isIface {
				// interface-to-interface assertion: succeeds iff the dynamic type implements target — abstract predicate per (tag,target)
				fn := "Implements_" + sanitize(types.TypeString(target, func(p *types.Package) string { return p.Name() }))
				c.declareFun(fn, "(Int) Bool")
				okT = c.defRaw("tyok", "Bool", and("(not (= "+iv.Tag+" 0))", "("+fn+" "+iv.Tag+")"))
				res = IfaceV{Tag: iv.Tag, Ref: iv.Ref, T: target}
			}
		}
	case ErrV:
		okT = c.freshRaw("tyok", "Bool")
		c.assume(implies(okT, "(not (= "+iv.T+" 0))"))
		res = c.symbolic(st, "asserted", target)
	}
	if okT == "" {
		okT = c.freshRaw("tyok", "Bool")
		c.abstracted("type assertion on unmodelled value")
		res = c.symbolic(st, "asserted", target)
	}
	if commaOk {
		return []Val{res, Scalar{okT, boolSort}}
	}
	if c.assumeAsserts {
		// the operation is allowed to panic on a value of the wrong dynamic type: continue on the success path only
		st.guard = c.defRaw("g", "Bool", and(st.guard, okT))
		return []Val{res}
	}
	c.oblige(st, "safe.assert", c.pos(x.Pos()), okT, "type assertion "+types.ExprString(x)+" succeeds")
	return []Val{res}
}

func (c *Ctx) typeTag(nt *types.Named) int {
	name := nt.Obj().Pkg().Path() + "." + nt.Obj().Name()
	k, ok := c.wrapIdx[name]
	if !ok {
		k = len(c.wrapIdx) + 1
		c.wrapIdx[name] = k
	}
	return k
}

func (c *Ctx) binary(x *ast.BinaryExpr, st *State) Val {
	if x.Op == token.LAND || x.Op == token.LOR {
		a := c.eval(x.X, st).(Scalar)
		var st2 *State
		if x.Op == token.LAND {
			st2 = c.withGuard(st, a.T)
		} else {
			st2 = c.withGuard(st, not(a.T))
		}
		nobl := len(c.obls)
		b := c.eval(x.Y, st2).(Scalar)
		_ = nobl
		// heap effects of the RHS (calls) are not merged back: RHS of && / || in scope is pure
		if x.Op == token.LOR {
			return Scalar{c.def("b", boolSort, or(a.T, b.T)), boolSort}
		}
		return Scalar{c.def("b", boolSort, and(a.T, b.T)), boolSort}
	}
	av := c.eval(x.X, st)
	bvv := c.eval(x.Y, st)
	if e, ok := bvv.(ErrV); ok && e.T == "0" {
		if _, isE := av.(ErrV); !isE {
			bvv = c.zeroValue(c.info.TypeOf(x.X))
		}
	}
	if e, ok := av.(ErrV); ok && e.T == "0" {
		if _, isE := bvv.(ErrV); !isE {
			av = c.zeroValue(c.info.TypeOf(x.Y))
		}
	}
	eq := func(t string) Val {
		if x.Op == token.NEQ {
			t = not(t)
		}
		return Scalar{c.def("cmp", boolSort, t), boolSort}
	}
	switch a := av.(type) {
	case PtrV:
		switch b := bvv.(type) {
		case PtrV:
			return eq("(= " + a.Ref + " " + b.Ref + ")")
		case ErrV:
			return eq("(= " + a.Ref + " " + b.T + ")")
		}
	case ErrV:
		switch b := bvv.(type) {
		case ErrV:
			return eq("(= " + a.T + " " + b.T + ")")
		case PtrV:
			return eq("(= " + a.T + " " + b.Ref + ")")
		case IfaceV:
			return eq("(= " + a.T + " " + b.Tag + ")")
		}
	case IfaceV:
		switch b := bvv.(type) {
		case IfaceV:
			return eq(and("(= "+a.Tag+" "+b.Tag+")", "(= "+a.Ref+" "+b.Ref+")"))
		case ErrV:
			return eq("(= " + a.Tag + " " + b.T + ")")
		case PtrV:
			if b.Ref == "0" {
				return eq("(= " + a.Tag + " 0)")
			}
		}
	case SliceV:
		if b, ok := bvv.(SliceV); ok {
			if x.Op == token.ADD && (a.IsStr || b.IsStr) {
				return c.concatStr(st, a, b)
			}
			if a.IsStr || b.IsStr {
				return c.strCompare(x.Op, a, b, st)
			}
			if b.Nil == "true" {
				return eq(a.Nil)
			}
			if a.Nil == "true" {
				return eq(b.Nil)
			}
		}
	case ListV:
		if b, ok := bvv.(ListV); ok && b.Nil == "true" {
			return eq(a.Nil)
		}
	case MapV:
		if b, ok := bvv.(MapV); ok && b.Nil == "true" {
			return eq(a.Nil)
		}
	case OpaqueV:
		c.abstracted("comparison of unmodelled values")
		return Scalar{c.freshRaw("cmp", "Bool"), boolSort}
	}
	if _, isOp := bvv.(OpaqueV); isOp {
		c.abstracted("comparison of unmodelled values")
		return Scalar{c.freshRaw("cmp", "Bool"), boolSort}
	}
	a, ok1 := av.(Scalar)
	b, ok2 := bvv.(Scalar)
	if !ok1 || !ok2 {
		c.fail(x.Pos(), "binary %s on %T and %T", x.Op, av, bvv)
	}
	lt := c.info.TypeOf(x.X)
	if isFloat(lt) {
		return c.floatCmp(x, a, b)
	}
	return c.binop(x.Op, a, b, st, x.Pos())
}

func (c *Ctx) floatCmp(x *ast.BinaryExpr, a, b Scalar) Val {
	if x.Op == token.EQL || x.Op == token.NEQ {
		// float comparison against zero on the bit pattern: x == 0 <=> all bits except the sign are zero. Exact incl. NaN.
		zero := c.lit(big.NewInt(0), a.S)
		if a.T != zero && b.T != zero {
			c.abstracted("float comparison with non-zero operand")
			return Scalar{c.freshRaw("fcmp", "Bool"), boolSort}
		}
		mask := c.lit(new(big.Int).Sub(new(big.Int).Lsh(big.NewInt(1), uint(a.S.W-1)), big.NewInt(1)), a.S)
		v := a.T
		if a.T == zero {
			v = b.T
		}
		t := fmt.Sprintf("(= (bvand %s %s) %s)", v, mask, zero)
		if x.Op == token.NEQ {
			t = not(t)
		}
		return Scalar{c.def("fcmp", boolSort, t), boolSort}
	}
	c.abstracted("float ordering comparison")
	return Scalar{c.freshRaw("fcmp", "Bool"), boolSort}
}

func (c *Ctx) strCompare(op token.Token, a, b SliceV, st *State) Val {
	ida, oka := c.strID(a)
	idb, okb := c.strID(b)
	if oka && okb {
		t := "false"
		if (ida == idb) == (op == token.EQL) {
			t = "true"
		}
		return Scalar{t, boolSort}
	}
	// comparison against "" is a length test
	if okb && internRev[idb] == "" || oka && internRev[ida] == "" {
		o := a
		if oka && internRev[ida] == "" {
			o = b
		}
		t := "(= " + o.Len + " " + c.ilit(0) + ")"
		if op == token.NEQ {
			t = not(t)
		}
		return Scalar{c.def("cmp", boolSort, t), boolSort}
	}
	if (oka || okb) && (op == token.EQL || op == token.NEQ) {
		// comparison with a string constant: one uninterpreted predicate per constant (shared with the contract evaluator)
		t := c.strIsConst(st, a, b, oka, ida, idb)
		if op == token.NEQ {
			t = not(t)
		}
		return Scalar{c.def("cmp", boolSort, t), boolSort}
	}
	if op == token.EQL || op == token.NEQ {
		// extensional: equal length and equal content (quantifier-free over-approximation via an uninterpreted predicate tied to length)
		c.declareFun("StrEq", "("+c.byteArrSort()+" "+c.idx().smt()+" "+c.byteArrSort()+" "+c.idx().smt()+" "+c.idx().smt()+") Bool")
		t := and("(= "+a.Len+" "+b.Len+")", fmt.Sprintf("(StrEq %s %s %s %s %s)", c.sliceArr(st, a), a.Off, c.sliceArr(st, b), b.Off, a.Len))
		if op == token.NEQ {
			t = not(t)
		}
		return Scalar{c.def("cmp", boolSort, t), boolSort}
	}
	c.abstracted("string ordering comparison")
	return Scalar{c.freshRaw("scmp", "Bool"), boolSort}
}

// binop on two scalars of the same Go type (b may be a shift count of another type)
func (c *Ctx) binop(op token.Token, a, b Scalar, st *State, pos token.Pos) Val {
	s := a.S
	if a.S.K == "str" || b.S.K == "str" {
		t := "(= " + a.T + " " + b.T + ")"
		if op == token.NEQ {
			t = not(t)
		}
		return Scalar{t, boolSort}
	}
	cmp := func(sop, uop, iop string) Val {
		if s.K == "int" {
			return Scalar{c.def("cmp", boolSort, fmt.Sprintf("(%s %s %s)", iop, a.T, b.T)), boolSort}
		}
		if s.Sg {
			return Scalar{c.def("cmp", boolSort, fmt.Sprintf("(%s %s %s)", sop, a.T, b.T)), boolSort}
		}
		return Scalar{c.def("cmp", boolSort, fmt.Sprintf("(%s %s %s)", uop, a.T, b.T)), boolSort}
	}
	switch op {
	case token.EQL:
		return Scalar{c.def("cmp", boolSort, fmt.Sprintf("(= %s %s)", a.T, b.T)), boolSort}
	case token.NEQ:
		return Scalar{c.def("cmp", boolSort, fmt.Sprintf("(not (= %s %s))", a.T, b.T)), boolSort}
	case token.LSS:
		return cmp("bvslt", "bvult", "<")
	case token.LEQ:
		return cmp("bvsle", "bvule", "<=")
	case token.GTR:
		return cmp("bvsgt", "bvugt", ">")
	case token.GEQ:
		return cmp("bvsge", "bvuge", ">=")
	}
	return c.arith(op, a, b, st, pos)
}

func (c *Ctx) arith(op token.Token, a, b Scalar, st *State, pos token.Pos) Val {
	s := a.S
	if s.K == "int" {
		var t string
		switch op {
		case token.ADD:
			t = wrapTerm("(+ "+a.T+" "+b.T+")", s.W, s.Sg)
		case token.SUB:
			t = wrapTerm("(- "+a.T+" "+b.T+")", s.W, s.Sg)
		case token.MUL:
			t = wrapTerm("(* "+a.T+" "+b.T+")", s.W, s.Sg)
		case token.QUO, token.REM:
			c.oblige(st, "safe.div", c.pos(pos), "(not (= "+b.T+" 0))", "divisor != 0")
			// Go truncates toward zero
			q := fmt.Sprintf("(ite (>= %s 0) (div %s %s) (- (div (- %s) %s)))", a.T, a.T, b.T, a.T, b.T)
			if op == token.QUO {
				t = wrapTerm(q, s.W, s.Sg)
			} else {
				t = fmt.Sprintf("(- %s (* %s %s))", a.T, b.T, q)
			}
		default:
			c.fail(pos, "operator %s on mathematical integers (use mode bv)", op)
		}
		return Scalar{c.def("t", s, t), s}
	}
	if s.K != "bv" {
		c.fail(pos, "arithmetic on sort %s", s.K)
	}
	var t string
	switch op {
	case token.ADD:
		t = "(bvadd " + a.T + " " + b.T + ")"
	case token.SUB:
		t = "(bvsub " + a.T + " " + b.T + ")"
	case token.MUL:
		t = "(bvmul " + a.T + " " + b.T + ")"
	case token.QUO, token.REM:
		c.oblige(st, "safe.div", c.pos(pos), "(not (= "+b.T+" "+c.zero(s)+"))", "divisor != 0")
		switch {
		case op == token.QUO && s.Sg:
			t = "(bvsdiv " + a.T + " " + b.T + ")"
		case op == token.QUO:
			t = "(bvudiv " + a.T + " " + b.T + ")"
		case s.Sg:
			t = "(bvsrem " + a.T + " " + b.T + ")"
		default:
			t = "(bvurem " + a.T + " " + b.T + ")"
		}
	case token.AND:
		t = "(bvand " + a.T + " " + b.T + ")"
	case token.OR:
		t = "(bvor " + a.T + " " + b.T + ")"
	case token.XOR:
		t = "(bvxor " + a.T + " " + b.T + ")"
	case token.AND_NOT:
		t = "(bvand " + a.T + " (bvnot " + b.T + "))"
	case token.SHL, token.SHR:
		cnt := b.T
		switch {
		case b.S.K == "int":
			// constant shift count typed as a platform int in the mixed model
			if n, ok := smtValToBig(b.T); ok {
				if n.Cmp(big.NewInt(int64(s.W))) >= 0 {
					n = big.NewInt(int64(s.W))
				}
				cnt = bvLit(n, s.W)
			} else {
				c.fail(pos, "symbolic shift count of mathematical sort")
			}
		case b.S.W > s.W:
			lim := bvLit(big.NewInt(int64(s.W)), b.S.W)
			ext := fmt.Sprintf("((_ extract %d 0) %s)", s.W-1, b.T)
			cnt = fmt.Sprintf("(ite (bvuge %s %s) %s %s)", b.T, lim, bvLit(big.NewInt(int64(s.W)), s.W), ext)
		case b.S.W < s.W:
			cnt = fmt.Sprintf("((_ zero_extend %d) %s)", s.W-b.S.W, b.T)
		}
		if op == token.SHL {
			t = "(bvshl " + a.T + " " + cnt + ")"
		} else if s.Sg {
			t = "(bvashr " + a.T + " " + cnt + ")"
		} else {
			t = "(bvlshr " + a.T + " " + cnt + ")"
		}
	default:
		c.fail(pos, "unsupported operator %s", op)
	}
	return Scalar{c.def("t", s, t), s}
}

func (c *Ctx) convert(v Scalar, to types.Type) Scalar {
	ts, ok := c.sortOf(to)
	if !ok {
		panic(unsupported{"conversion to " + to.String()})
	}
	return c.convertSort(v, ts)
}

func (c *Ctx) convertSort(v Scalar, ts Sort) Scalar {
	fs := v.S
	if fs.K == "bool" || ts.K == "bool" {
		return Scalar{v.T, ts}
	}
	if fs.K == "int" && ts.K == "int" {
		if ts.W > fs.W || (ts.W == fs.W && ts.Sg == fs.Sg) || (ts.W > fs.W && fs.Sg == ts.Sg) {
			if fs.Sg && !ts.Sg {
				return Scalar{c.def("cv", ts, wrapTerm(v.T, ts.W, ts.Sg)), ts}
			}
			return Scalar{v.T, ts}
		}
		return Scalar{c.def("cv", ts, wrapTerm(v.T, ts.W, ts.Sg)), ts}
	}
	if fs.K == "int" && ts.K == "bv" {
		if n, ok := smtValToBig(v.T); ok && isAtom(v.T) || strings.HasPrefix(v.T, "(- ") && ok {
			return Scalar{bvLit(n, ts.W), ts}
		}
		// int -> uintN/intN of a symbolic platform int: kept lazy (never int2bv); consumers use Int-domain spec twins
		return Scalar{v.T, Sort{K: "i2b", W: ts.W, Sg: ts.Sg}}
	}
	if fs.K == "i2b" {
		if ts.K == "int" {
			return Scalar{v.T, ts}
		}
		return Scalar{v.T, Sort{K: "i2b", W: ts.W, Sg: ts.Sg}}
	}
	if fs.K == "bv" && ts.K == "int" {
		// sized -> platform int in the mixed model
		if fs.Sg {
			return Scalar{c.def("cv", ts, "(sbv2int"+fmt.Sprint(fs.W)+" "+v.T+")"), ts}
		}
		return Scalar{c.def("cv", ts, "(bv2nat "+v.T+")"), ts}
	}
	switch {
	case ts.W == fs.W:
		return Scalar{v.T, ts}
	case ts.W < fs.W:
		return Scalar{c.def("cv", ts, fmt.Sprintf("((_ extract %d 0) %s)", ts.W-1, v.T)), ts}
	case fs.Sg:
		return Scalar{c.def("cv", ts, fmt.Sprintf("((_ sign_extend %d) %s)", ts.W-fs.W, v.T)), ts}
	default:
		return Scalar{c.def("cv", ts, fmt.Sprintf("((_ zero_extend %d) %s)", ts.W-fs.W, v.T)), ts}
	}
}

func fieldType(s *types.Struct, f string) types.Type {
	for i := 0; i < s.NumFields(); i++ {
		if s.Field(i).Name() == f {
			return s.Field(i).Type()
		}
	}
	return nil
}

// assumeRange: a mathematical-integer model of a Go integer stays inside the type's range
func (c *Ctx) assumeRange(t string, s Sort) {
	if s.K != "int" || s.W == 0 {
		return
	}
	if s.Sg {
		h := new(big.Int).Lsh(big.NewInt(1), uint(s.W-1))
		c.assume(fmt.Sprintf("(and (<= (- %s) %s) (< %s %s))", h, t, t, h))
	} else {
		c.assume(fmt.Sprintf("(and (<= 0 %s) (< %s %s))", t, t, new(big.Int).Lsh(big.NewInt(1), uint(s.W))))
	}
}

// strIsConst: "the string equals the constant with this id" as an uninterpreted predicate of the string's content
func (c *Ctx) strIsConst(st *State, a, b SliceV, aConst bool, ida, idb int) string {
	o, id := a, idb
	if aConst {
		o, id = b, ida
	}
	fn := fmt.Sprintf("StrIs%d", id)
	c.declareFun(fn, "("+c.byteArrSort()+" "+c.idx().smt()+" "+c.idx().smt()+") Bool")
	return and("(= "+o.Len+" "+c.ilit(int64(len(internRev[id])))+")", "("+fn+" "+c.sliceArr(st, o)+" "+o.Off+" "+o.Len+")")
}

// sliceNil: a slice expression over a nil slice (only s[0:0] is legal there) is nil again; over a non-nil slice it is
// non-nil; strings are never nil
func sliceNil(b SliceV) string {
	if b.IsStr || b.Nil == "" {
		return "false"
	}
	return b.Nil
}
