package main

// Emitted-code family: the generated `unmarshal` closure (DESIGN.md Appendix C).
// One symbolic execution per message in bit-vector mode produces the obligations of
//   C06 (safety sweep, termination variants, allocation bound, representation invariant),
//   C07 (provenance: nothing stored into the message aliases the input; the input is never written),
//   C14 (unknown-field contract of the default branch; no other branch touches unknownFields).

import (
	"fmt"
	"go/ast"
	"go/token"
	"go/types"
	"sort"
	"strings"
)

type genTarget struct {
	prog  *Program
	label string // "checked-in" | "fresh"
	pkgs  []string
}

func shortPkg(path string) string {
	if strings.HasPrefix(path, freshModule+"/") {
		return strings.TrimPrefix(path, freshModule+"/") // regen/testpb, corpus/maps: fresh programs are named apart from checked-in ones
	}
	return path[strings.LastIndex(path, "/")+1:]
}

// closureInput builds the symbolic `input` parameter and binds input.Message.Interface() to *M
func (c *Ctx) setupClosure(lit *ast.FuncLit, st *State, ms *MsgSchema) (xref string) {
	p := lit.Type.Params.List[0].Names[0]
	obj := c.info.Defs[p]
	in := c.symbolic(st, "input", obj.Type()).(StructV)
	if b, ok := in.F["Buf"].(SliceV); ok {
		b.Prov = "input"
		in.F["Buf"] = b
	}
	st.env[obj] = in
	xref = c.freshRaw("x", "Int")
	c.assume("(>= " + xref + " 0)")
	return xref
}

func isInputMessageInterface(c *Ctx, x *ast.CallExpr) bool {
	// input.Message.Interface()
	sel, ok := x.Fun.(*ast.SelectorExpr)
	if !ok || sel.Sel.Name != "Interface" {
		return false
	}
	s2, ok := sel.X.(*ast.SelectorExpr)
	if !ok || s2.Sel.Name != "Message" {
		return false
	}
	id, ok := s2.X.(*ast.Ident)
	return ok && id.Name == "input"
}

// genericLoopSpecs: contracts for the loops of generated decode code, supplied by shape (never by line):
// condition-less varint loops are unrolled 11 times (the 11th copy only takes the shift >= 64 exit);
// index loops carry 0 <= iNdEx <= l and the variant bound - iNdEx.
func unmarshalLoopSpec(c *Ctx, ord int, loop ast.Stmt) *LoopSpec {
	if rs, ok := loop.(*ast.RangeStmt); ok {
		// counting loops (`for _, b := range bytes { if … { count++ } }`): 0 <= count <= index
		var counters []*ast.Ident
		ast.Inspect(rs.Body, func(n ast.Node) bool {
			if inc, ok := n.(*ast.IncDecStmt); ok && inc.Tok == token.INC {
				if id, ok := inc.X.(*ast.Ident); ok {
					counters = append(counters, id)
				}
			}
			return true
		})
		if len(counters) == 0 {
			return nil
		}
		return &LoopSpec{InvFn: func(c *Ctx, st *State, idx string) string {
			r := "true"
			for _, id := range counters {
				if v, ok := st.env[c.objOf(id)].(Scalar); ok {
					r = and(r, and(c.leIdx(c.ilit(0), v.T), c.leIdx(v.T, idx)))
				}
			}
			return r
		}}
	}
	fs, ok := loop.(*ast.ForStmt)
	if !ok {
		return nil
	}
	if fs.Cond == nil {
		// varint decode loop: summary  i_before < i_after <= l  (decoded value abstracted for the safety engines)
		return &LoopSpec{Unroll: 11, PostFn: func(c *Ctx, before, after *State) string {
			find := func(st *State, name string) (Scalar, bool) {
				_, o := c.pkg.Types.Scope().Innermost(fs.Body.Pos()).LookupParent(role(name), fs.Body.Pos())
				if o == nil {
					return Scalar{}, false
				}
				v, ok := st.env[o].(Scalar)
				return v, ok
			}
			i0, ok0 := find(before, "iNdEx")
			i1, ok1 := find(after, "iNdEx")
			l, ok2 := find(after, "l")
			if !ok0 || !ok1 || !ok2 {
				return "true"
			}
			return and(c.ltIdx(i0.T, i1.T), c.leIdx(i1.T, l.T))
		}}
	}
	be, ok := fs.Cond.(*ast.BinaryExpr)
	if !ok || be.Op != token.LSS {
		return nil
	}
	lhs, ok1 := be.X.(*ast.Ident)
	rhs, ok2 := be.Y.(*ast.Ident)
	if !ok1 || !ok2 {
		return nil
	}
	look := func(st *State, name string) Scalar {
		_, o := c.pkg.Types.Scope().Innermost(fs.Body.Pos()).LookupParent(role(name), fs.Body.Pos())
		if o != nil {
			if v, ok := st.env[o].(Scalar); ok {
				return v
			}
		}
		panic(unsupported{"loop contract: no variable " + name})
	}
	return &LoopSpec{
		InvFn: func(c *Ctx, st *State, _ string) string {
			i, l := look(st, lhs.Name), look(st, "l")
			inv := and(c.leIdx(c.ilit(0), i.T), c.leIdx(i.T, l.T))
			// map entry loop with a message value: the value variable never holds nil (a missing value is an empty message)
			if mv, ok := envByName(st, "mapvalue", fs.Pos()); ok {
				if p, isPtr := mv.(PtrV); isPtr {
					inv = and(inv, "(not (= "+p.Ref+" 0))")
				}
			}
			return inv
		},
		DecFn: func(c *Ctx, before, after *State) string {
			i0, i1, b0, b1 := look(before, lhs.Name), look(after, lhs.Name), look(before, rhs.Name), look(after, rhs.Name)
			return and(c.ltIdx(i0.T, i1.T), and(c.ltIdx(i0.T, b0.T), "(= "+b0.T+" "+b1.T+")"))
		},
	}
}

type unmarshalOpts struct {
	safety, provenance, unknown bool
	functional                  bool // C03: per-case FromWire contracts
}

func unmarshalUnit(prog *Program, ms *MsgSchema, o unmarshalOpts) (u *Unit) {
	pkg := ms.Pkg
	u = &Unit{Name: shortPkg(pkg.PkgPath) + "." + ms.Name + ".unmarshal"}
	lit := findClosure(pkg, ms.Name, "unmarshal")
	if lit == nil {
		u.Skipped = "no unmarshal closure found in ProtoMethods"
		return u
	}
	c := newCtx(prog, pkg, "bv", u.Name)
	schemaByUnit[u.Name] = ms
	c.tag = map[string]string{"message": ms.Name, "method": "unmarshal", "package": pkg.PkgPath}
	u.Ctx = c
	u.File = c.pos(lit.Pos())
	defer func() {
		if r := recover(); r != nil {
			if us, ok := r.(unsupported); ok {
				u.Skipped = "outside the supported subset: " + us.msg
				return
			}
			panic(r)
		}
	}()
	st := newState()
	detectRoles(lit, "unmarshal")
	if o.safety {
		c.allocHook = recordLocalAllocBound(c, lit)
	}
	xref := c.setupClosure(lit, st, ms)
	x := PtrV{Ref: xref, Named: ms.Named}
	c.loadStruct(st, x) // entry heap components exist before the snapshot
	for _, f := range ms.Fields {
		if f.Oneof != nil && f.Wrapper != nil {
			// … and so do the wrapper fields of oneof members (read by the merge case of message members)
			c.loadField(st, PtrV{Ref: c.freshRaw("anywrapper", "Int"), Named: f.Wrapper}, f.GoName)
		}
	}
	c.loopSpecFor = unmarshalLoopSpec
	var dec *decEngine
	if o.functional {
		dec = &decEngine{c: c, ms: ms, x: x, u: u}
		c.loopSpecFor = dec.loopSpec
		c.onCase = dec.onCase
		c.caseExitAll = true
		c.onCaseExit = dec.onCaseExit
	}
	var unknownStores int
	var grounds []Ground
	optionsFromInput := map[types.Object]bool{}
	// which locals hold runtime.UnmarshalInputToOptions(input)
	ast.Inspect(lit.Body, func(n ast.Node) bool {
		if as, ok := n.(*ast.AssignStmt); ok && len(as.Lhs) == 1 && len(as.Rhs) == 1 {
			if call, ok := as.Rhs[0].(*ast.CallExpr); ok {
				if fn := c.calleeFunc(call); fn != nil && funcKey(fn) == repoModule+"/runtime.UnmarshalInputToOptions" && len(call.Args) == 1 {
					if a, ok := call.Args[0].(*ast.Ident); ok && a.Name == "input" {
						if id, ok := as.Lhs[0].(*ast.Ident); ok {
							optionsFromInput[c.objOf(id)] = true
						}
					}
				}
			}
		}
		return true
	})
	c.callHook = func(c *Ctx, call *ast.CallExpr, st *State) ([]Val, bool) {
		if isInputMessageInterface(c, call) {
			return []Val{IfaceV{Tag: fmt.Sprint(c.typeTag(ms.Named)), Ref: xref}}, true
		}
		if sel, ok := call.Fun.(*ast.SelectorExpr); ok && sel.Sel.Name == "Unmarshal" && len(call.Args) == 2 {
			if fn := c.calleeFunc(call); fn != nil && funcKey(fn) == "google.golang.org/protobuf/proto.UnmarshalOptions.Unmarshal" {
				// trusted contract of the nested decode: reads b, writes only the target message, returns an error or nil
				ov := c.eval(sel.X, st)
				b := c.eval(call.Args[0], st)
				m := c.eval(call.Args[1], st)
				_ = b
				fieldName := "?"
				if fr := fieldsMentioned(call.Args[1]); len(fr) > 0 {
					fieldName = fr[0]
				}
				if o.safety {
					// recursion: the callee's depth budget is positive and strictly smaller than the caller's
					if osv, ok := ov.(StructV); ok {
						if rl, ok := osv.F["RecursionLimit"].(Scalar); ok {
							if in, ok := st.env[c.info.Defs[lit.Type.Params.List[0].Names[0]]].(StructV); ok {
								if d, ok := in.F["Depth"].(Scalar); ok {
									c.addObl(Obl{Name: fmt.Sprintf("%s/%s/depth[callee budget < caller budget]", u.Name, fieldName), Kind: "depth", Guard: st.guard,
										Goal: and(c.ltIdx(c.ilit(0), d.T), and(c.ltIdx(rl.T, d.T), not("(= "+rl.T+" "+c.ilit(0)+")"))), Pos: c.pos(call.Pos()),
										Text: "a nested decode happens only with a live budget (input.Depth > 0) and gets one that is strictly smaller and not the zero proto.UnmarshalOptions would re-default; a callee handed a non-positive budget returns the recursion error"})
									one := c.ilit(1)
									c.addObl(Obl{Name: fmt.Sprintf("%s/%s/depth[callee budget == caller budget - 1]", u.Name, fieldName), Kind: "depth", Guard: st.guard,
										Goal: implies(c.ltIdx(one, d.T), "(= "+rl.T+" "+c.subIdx(d.T, one)+")"), Pos: c.pos(call.Pos()),
										Text: "every nested decode of this call gets the same budget, input.Depth - 1, however many sub-messages were decoded before it (siblings do not use the budget up)"})
								}
							}
						}
					}
				}
				if o.unknown {
					id, isId := sel.X.(*ast.Ident)
					okRecv := isId && optionsFromInput[c.objOf(id)]
					rep := Ground{Name: fmt.Sprintf("%s/%s/nested-decode-uses-options", u.Name, fieldName), OK: okRecv, Text: "nested decode is called on the options value derived from this call's input flags (DiscardUnknown reaches every depth)", Detail: c.pos(call.Pos())}
					grounds = append(grounds, rep)
				}
				if p, ok := m.(PtrV); ok {
					if dec != nil {
						if bs, ok := b.(SliceV); ok {
							dec.calls = append(dec.calls, decCall{off: bs.Off, ln: bs.Len, target: p.Ref, guard: st.guard, pos: call.Pos()})
						}
					}
					c.oblige(st, "requires@call", c.pos(call.Pos()), "(not (= "+p.Ref+" 0))", "options.Unmarshal needs a non-nil target message")
					if p.Struct() != nil {
						c.havocObject(st, p)
					}
				}
				e := c.freshRaw("uerr", "Int")
				c.assume("(>= " + e + " 0)")
				c.usedSpecs["google.golang.org/protobuf/proto.UnmarshalOptions.Unmarshal"] = true
				return []Val{ErrV{e}}, true
			}
		}
		return nil, false
	}
	if o.unknown {
		c.content = true
		outer := true
		var defaultClause *ast.CaseClause
		c.onCaseExit = func(c *Ctx, cc *ast.CaseClause, e, x1 *State) {
			if !outer || c.depth > 0 {
				return
			}
			defaultClause = cc
			c.unknownContract(u, ms, x, e, x1, cc)
		}
		defer func() {
			// frame: no branch other than default assigns unknownFields
			for i, s := range c.stores {
				if s.Key != "fld:"+ms.Name+".unknownFields" {
					continue
				}
				inDefault := defaultClause != nil && s.TPos >= defaultClause.Pos() && s.TPos <= defaultClause.End()
				u.Grounds = append(u.Grounds, Ground{Name: fmt.Sprintf("%s/unknownFields-assigned-only-in-default#%d", u.Name, i+1), OK: inDefault, Text: "only the default branch (unknown field numbers) assigns unknownFields: no known field lands there", Detail: s.Pos})
			}
		}()
	}
	// message values are finite and acyclic: a sub-message of the message's own type is not the message itself
	for _, f := range ms.Fields {
		if f.Kind == "message" && !f.Rep && !f.IsMap && f.Oneof == nil && f.Msg != nil && f.Msg.Obj() == ms.Named.Obj() {
			if p, ok := c.loadField(st, x, f.GoName).(PtrV); ok {
				st.guard = c.defRaw("g", "Bool", and(st.guard, not("(= "+p.Ref+" "+x.Ref+")")))
			}
		}
	}
	entry := st.clone()
	c.entry = entry
	c.addObl(Obl{Name: u.Name + "/cover[entry]", Kind: "cover", Guard: "true", Goal: "true", Expect: "sat", Text: "entry assumptions are satisfiable"})
	nStoresBefore := len(c.stores)
	fl := c.execBlock(lit.Body.List, st)
	for _, end := range fl.nexts() {
		c.rets = append(c.rets, &RetState{St: end, Pos: lit.Body.Rbrace})
	}
	if !o.safety {
		// keep only what the requested property needs
		var keep []*Obl
		for _, ob := range c.obls {
			if !(strings.HasPrefix(ob.Kind, "safe.") || strings.HasPrefix(ob.Kind, "loop.") || ob.Kind == "unwind" || ob.Kind == "requires@call") || (o.functional && ob.Kind == "loop.post") {
				keep = append(keep, ob)
			}
		}
		c.obls = keep
	}
	if o.safety {
		for i, pr := range c.panics {
			c.addObl(Obl{Name: fmt.Sprintf("%s/unreachable-panic#%d", u.Name, i+1), Kind: "unreachable-panic", Guard: pr.St.guard, Goal: "false", Pos: c.pos(pr.Pos), Text: "explicit panic is unreachable"})
		}
		// allocation proportional to the input: every make(T, n) has n <= remaining input length
		buf := entry.env[c.info.Defs[lit.Type.Params.List[0].Names[0]]].(StructV).F["Buf"].(SliceV)
		for i, a := range c.allocs {
			c.addObl(Obl{Name: fmt.Sprintf("%s/alloc#%d", u.Name, i+1), Kind: "alloc", Guard: a.Guard, Goal: c.leIdx(a.Size, buf.Len), Pos: a.Pos, Text: "make(…, n): n <= len(input) (allocation proportional to the input)"})
			if a.Tight != "" {
				c.addObl(Obl{Name: fmt.Sprintf("%s/alloc-record-local#%d", u.Name, i+1), Kind: "alloc", Guard: a.Guard, Goal: a.Tight, Pos: a.Pos,
					Text: "make(…, n): n is bounded by the length of the record being decoded, not by what is left of the buffer (each nesting level may otherwise reserve the rest of its buffer: depth x payload)"})
			}
		}
		// representation invariant at normal returns: no nil message stored as a list element or map value
		c.wfObligations(u, ms, x)
	}
	if o.provenance {
		n := 0
		for _, s := range c.stores[nStoresBefore:] {
			if strings.HasPrefix(s.Key, "rgn:input") {
				n++
				c.addObl(Obl{Name: fmt.Sprintf("%s/frame[input not written]#%d", u.Name, n), Kind: "frame", Guard: s.Guard, Goal: "false", Pos: s.Pos, Text: "unmarshal never writes to its input buffer"})
			}
		}
		k := 0
		for _, s := range c.stores[nStoresBefore:] {
			if !strings.HasPrefix(s.Key, "fld:") {
				continue
			}
			k++
			goal := "true"
			if rp := c.resolveProv(s.Prov); rp == "input" || rp == "mixed" {
				goal = "false"
			}
			fname := s.Key[strings.Index(s.Key, ".")+1:]
			c.addObl(Obl{Name: fmt.Sprintf("%s/%s/provenance#%d", u.Name, fname, k), Kind: "provenance", Guard: s.Guard, Goal: goal, Pos: s.Pos, Text: "value stored into the message does not share memory with input.Buf (provenance " + s.Prov + ")"})
		}
		for i, s := range c.aliasStores {
			if rp := c.resolveProv(s.Prov); rp != "input" && rp != "mixed" {
				continue
			}
			c.addObl(Obl{Name: fmt.Sprintf("%s/provenance[element]#%d", u.Name, i+1), Kind: "provenance", Guard: s.Guard, Goal: "false", Pos: s.Pos, Text: "element/key/value stored into a container of the message aliases input.Buf"})
		}
	}
	_ = unknownStores
	u.Grounds = grounds
	c.addObl(Obl{Name: u.Name + "/canary[return reachable]", Kind: "canary", Guard: retGuards(c), Goal: "true", Expect: "sat", Text: "a return point is reachable"})
	return u
}

func retGuards(c *Ctx) string {
	// the last return point (normal end of the function) is enough for the reachability probe
	if n := len(c.rets); n > 0 {
		return c.rets[n-1].St.guard
	}
	return "false"
}

// wfObligations: the message accepted by unmarshal satisfies the representation invariant the other methods need.
// Checked at the places that store: every pointer appended to a repeated message field / stored as a map value is non-nil.
func (c *Ctx) wfObligations(u *Unit, ms *MsgSchema, x PtrV) {
	for i, s := range c.nilElemStores {
		c.addObl(Obl{Name: fmt.Sprintf("%s/%s/wf[%s non-nil]#%d", u.Name, s.Field, s.What, i+1), Kind: "wf", Guard: s.Guard, Goal: "(not (= " + s.Ref + " 0))", Pos: s.Pos,
			Text: "message stored as " + s.What + " is non-nil (size, marshal, Range and Equal dereference it)"})
	}
}

type ElemStore struct {
	Field, Ref, Guard, Pos, What string
}

var _ = types.Typ

func fieldsMentioned(e ast.Expr) []string {
	var r []string
	ast.Inspect(e, func(n ast.Node) bool {
		if se, ok := n.(*ast.SelectorExpr); ok {
			if id, ok := se.X.(*ast.Ident); ok && id.Name == "x" {
				r = append(r, se.Sel.Name)
			}
		}
		if id, ok := n.(*ast.Ident); ok && (id.Name == "mapvalue" || id.Name == "v") && len(r) == 0 {
			r = append(r, id.Name)
		}
		return true
	})
	return r
}

func envByName(st *State, name string, near token.Pos) (Val, bool) {
	name = role(name)
	var best Val
	var bestPos token.Pos = -1
	for o, v := range st.env {
		if o.Name() == name && o.Pos() <= near && o.Pos() > bestPos {
			best, bestPos = v, o.Pos()
		}
	}
	return best, bestPos >= 0
}

// unknownContract: the C14 contract of the default branch of the field switch.
//
//	iNdEx' == preIndex + skippy;  !Discard ==> unknown' == unknown ++ dAtA[preIndex : preIndex+skippy);  Discard ==> unknown' == unknown
func (c *Ctx) unknownContract(u *Unit, ms *MsgSchema, x PtrV, e, x1 *State, cc *ast.CaseClause) {
	end := cc.End()
	get := func(st *State, n string) Val {
		v, ok := envByName(st, n, end)
		if !ok {
			panic(unsupported{"default branch: no variable " + n})
		}
		return v
	}
	pre := get(x1, "preIndex").(Scalar)
	i1 := get(x1, "iNdEx").(Scalar)
	sk := get(x1, "skippy").(Scalar)
	opts, ok := get(x1, "options").(StructV)
	if !ok {
		panic(unsupported{"default branch: options is not a struct value"})
	}
	discard := opts.F["DiscardUnknown"].(Scalar).T
	d := get(x1, "dAtA").(SliceV)
	u0 := c.loadField(e, x, "unknownFields").(SliceV)
	u1 := c.loadField(x1, x, "unknownFields").(SliceV)
	name := func(s string) string { return u.Name + "/default/" + s }
	c.addObl(Obl{Name: name("ensures[consumes exactly the skipped record]"), Kind: "ensures", Guard: x1.guard, Goal: "(= " + i1.T + " " + c.addIdx(pre.T, sk.T) + ")", Pos: c.pos(cc.Pos()), Text: "iNdEx' == preIndex + skippy"})
	c.addObl(Obl{Name: name("ensures[discard leaves unknown unchanged]"), Kind: "ensures", Guard: x1.guard, Goal: implies(discard, and("(= "+u1.Len+" "+u0.Len+")", "(= "+c.sliceArr(x1, u1)+" "+c.sliceArr(e, u0)+")")), Pos: c.pos(cc.Pos()), Text: "DiscardUnknown ==> unknownFields unchanged"})
	c.addObl(Obl{Name: name("ensures[unknown grows by the record length]"), Kind: "ensures", Guard: x1.guard, Goal: implies(not(discard), "(= "+u1.Len+" "+c.addIdx(u0.Len, sk.T)+")"), Pos: c.pos(cc.Pos()), Text: "!DiscardUnknown ==> len(unknown') == len(unknown) + skippy"})
	k := c.fresh("k", c.idx())
	a1, a0, da := c.sliceArr(x1, u1), c.sliceArr(e, u0), c.sliceArr(x1, d)
	rec := implies(and(c.leIdx(c.ilit(0), k), c.ltIdx(k, sk.T)), "(= (select "+a1+" "+c.addIdx(u0.Len, k)+") (select "+da+" "+c.addIdx(d.Off, c.addIdx(pre.T, k))+"))")
	c.addObl(Obl{Name: name("ensures[record bytes appended verbatim]"), Kind: "ensures", Guard: x1.guard, Goal: implies(not(discard), rec), Pos: c.pos(cc.Pos()), Text: "!DiscardUnknown ==> forall k < skippy: unknown'[len(unknown)+k] == dAtA[preIndex+k]"})
	pfx := implies(and(c.leIdx(c.ilit(0), k), c.ltIdx(k, u0.Len)), "(= (select "+a1+" "+k+") (select "+a0+" "+k+"))")
	c.addObl(Obl{Name: name("ensures[earlier unknown records kept in order]"), Kind: "ensures", Guard: x1.guard, Goal: implies(not(discard), pfx), Pos: c.pos(cc.Pos()), Text: "!DiscardUnknown ==> forall k < len(unknown): unknown'[k] == unknown[k]"})
	// nothing else changes in the default branch
	var same []string
	for _, key := range sortedKeys(x1.heap) {
		if !strings.HasPrefix(key, "fld:"+ms.Name+".") || strings.HasPrefix(key, "fld:"+ms.Name+".unknownFields") {
			continue
		}
		if h0, ok := e.heap[key]; ok && h0 != x1.heap[key] {
			same = append(same, "(= "+h0+" "+x1.heap[key]+")")
		}
	}
	c.addObl(Obl{Name: name("frame[no known field changes]"), Kind: "frame", Guard: x1.guard, Goal: andAll(same), Pos: c.pos(cc.Pos()), Text: "the default branch changes no field other than unknownFields"})
}

// recordLocalAllocBound: the allocation bound of C06 per record.  A make(T, n) inside the case of a field is bounded by
// the extent of the record being decoded: there is a variable E declared in that case (a payload end such as
// postIndex, or a payload length such as packedLen / skippy) with preIndex <= E <= l and n <= E - preIndex (or the same
// from the current iNdEx), or with 0 <= E <= l and n <= E.  "What is left of the buffer" (l - iNdEx) is not such a
// bound: l and iNdEx are declared outside the case.
func recordLocalAllocBound(c *Ctx, lit *ast.FuncLit) func(st *State, size string, at token.Pos) string {
	var clauses []*ast.CaseClause
	ast.Inspect(lit.Body, func(n ast.Node) bool {
		if cc, ok := n.(*ast.CaseClause); ok {
			clauses = append(clauses, cc)
		}
		return true
	})
	return func(st *State, size string, at token.Pos) string {
		var outer *ast.CaseClause
		for _, cc := range clauses {
			if cc.Pos() <= at && at < cc.End() && (outer == nil || (cc.Pos() <= outer.Pos() && outer.End() <= cc.End())) {
				outer = cc
			}
		}
		if outer == nil {
			return ""
		}
		pv, ok1 := envByName(st, "preIndex", at)
		lv, ok2 := envByName(st, "l", at)
		if !ok1 || !ok2 {
			return ""
		}
		pre, l := pv.(Scalar), lv.(Scalar)
		is := c.idx()
		type cand struct {
			pos token.Pos
			t   string
		}
		var cands []cand
		for o, v := range st.env {
			sv, ok := v.(Scalar)
			if !ok || sv.S != is || o.Pos() < outer.Pos() || o.Pos() >= outer.End() || o.Pos() >= at {
				continue
			}
			cands = append(cands, cand{o.Pos(), sv.T})
		}
		sort.Slice(cands, func(i, j int) bool { return cands[i].pos < cands[j].pos })
		goal := "false"
		for _, cd := range cands {
			asEnd := and(and(c.leIdx(pre.T, cd.t), c.leIdx(cd.t, l.T)), c.leIdx(size, c.subIdx(cd.t, pre.T)))
			asLen := and(and(c.leIdx(c.ilit(0), cd.t), c.leIdx(cd.t, l.T)), c.leIdx(size, cd.t))
			goal = or(goal, or(asEnd, asLen))
			if cur, ok := envByName(st, "iNdEx", at); ok {
				cs := cur.(Scalar)
				goal = or(goal, and(and(c.leIdx(cs.T, cd.t), c.leIdx(cd.t, l.T)), c.leIdx(size, c.subIdx(cd.t, cs.T))))
			}
		}
		return goal
	}
}
